#!/venv/bin/python
"""Off-line: chart the (operator, site class) combinations at which the tool does not report a spacing violation,
by running ExprViol.tla over the whole expression table of a level.  Prints the table; the author copies it into
known_findings.json (operator_spacing_holes).  Never run by a check."""
import sys, os, json, collections
sys.path.insert(0, "/verif/harness"); sys.path.insert(0, "/verif/harness/props")
import tlc, normgen, observe, extract
from multiprocessing import Pool
level = int(sys.argv[1]) if len(sys.argv) > 1 else 2
extract.write()
def work(rec):
    name, text, lm = normgen.render(rec, 3)
    v = rec["viol"]; line = lm[v["line"] - 1]
    o = observe.run_file(text, name)
    got = [(d[1], d[2]) for d in o["diags"]]
    hit = any(g[0] in v["code"] and g[1] == line for g in got)
    s = v["site"]
    return (v["op"], s["lit"], s["prev"], s["next"], s["next2"] if s["next"] in ("(", "sizeof(") else ""), hit and o["status"] == "Error", text.split("\n")[line - 1]
jobs = []
for sh in range(16):
    cfg = tlc.cfg_text(spec="XSpec", constants=normgen.consts(1, 25, 3, level, False, "c", True) + [f"XShard = {sh}", "XShards = 16"], invariants=["ExportInv"])
    jobs.append(dict(name=f"xviol-{sh}", root="ExprViolMC", defs={}, cfg=cfg, workers=1, timeout=3000))
rs = tlc.run_many(jobs)
print([ (r.violated, (r.error or "")[:300]) for r in rs if not r.ok][:1], sum(len(r.exports) for r in rs), file=sys.stderr)
tot = collections.Counter(); miss = collections.Counter(); ex = {}
for r in rs:
    with Pool(14) as p:
        for key, ok, ln in p.imap_unordered(work, r.exports, chunksize=200):
            tot[key] += 1
            if not ok:
                miss[key] += 1; ex.setdefault(key, ln)
holes = sorted(k for k in miss)
always = [k for k in holes if miss[k] == tot[k]]
some = [k for k in holes if miss[k] != tot[k]]
print(json.dumps(dict(total_sites=sum(tot.values()), missed=sum(miss.values()), holes_always=len(always), holes_sometimes=len(some))), file=sys.stderr)
json.dump(dict(holes=[list(k) for k in holes], counts={"|".join(k): [miss[k], tot[k]] for k in holes}, examples={"|".join(k): ex[k] for k in holes}),
          open(f"/tmp/spacing-holes-{level}.json", "w"), indent=0)
for k in holes[:400]:
    print(k, miss[k], tot[k], repr(ex[k]))
