#!/bin/sh
# usage: seed_sweep.sh <tier> <seed-from> <seed-to> <ids...> : run the given checks under several VERIF_SEEDs (unchanged tree must be quiet)
tier=$1; a=$2; b=$3; shift 3
cd /verif
for s in $(seq $a $b); do for id in "$@"; do
  VERIF_SEED=$s ./check $id --tier $tier > /tmp/sweep-$id-$s.log 2>&1; rc=$?
  echo "seed=$s $id exit=$rc violations=$(grep -c '^VIOLATION' /tmp/sweep-$id-$s.log)"
  if [ $rc -ne 0 ]; then mkdir -p /tmp/sweep-replays/$id-$s; grep '^VIOLATION' /tmp/sweep-$id-$s.log | sed 's/.*replay=//' | head -20 | xargs -I{} cp {} /tmp/sweep-replays/$id-$s/ 2>/dev/null; fi
done; done
