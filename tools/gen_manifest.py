#!/venv/bin/python
"""Generate MANIFEST.json from the table below (kept in one place so that it stays valid)."""
import json
import os

HERE = os.path.dirname(os.path.dirname(os.path.abspath(__file__)))
BASE_CMD = ("cd /repo && /venv/bin/python -m pytest -ra -q -p no:cacheprovider --timeout=900 "
            "--continue-on-collection-errors")

CHECKS = {
    "C05": dict(ref="§4.5", tech="TLC model checking of Lexer.tla (Total/NoCrash/Progress) + replay of every exported behaviour + TLC trace validation; TLC-enumerated item edits (Edits.tla) and token edits (TokEdits.tla) of Norm/Viol derivations replayed through the whole pipeline",
                text="TLC explores the tokenizer model exhaustively over eleven focused alphabets (every string up to the stated length): every "
                     "non-final state has a successor, every step consumes input, nothing crashes. Every explored string is replayed into the real "
                     "Lexer (no exception, token count bounded, tokens equal to the model's); differing executions are validated by TLC against "
                     "LexerTrace.tla. Very long runs are a deterministic family argued by the model's Progress property. Whole pipeline: Edits.tla applies "
                     "every bounded item-level edit (delete / insert / replace / swap / truncate after an item) to every selected small conforming derivation of "
                     "Norm.tla, for both file types; TokEdits.tla enumerates every TOKEN-level edit (40 token texts) up to the position bound, applied to the token lists "
                     "(the tool's own spans) of seed-0 corpus programs of all four kinds (.c/.h, conforming / one violation); each edited program runs through Lexer + "
                     "Registry.run under a CPU-time watchdog: the outcome must be a verdict or a CParsingError, never another exception or a timeout.",
                note="bounded alphabets/lengths; observation through the public iterator and Lexer._Lexer__pos"),
    "C09": dict(ref="§4.9", tech="TLC model checking of Lexer.tla (PosInv against the closed-form TruePos) + replay + TLC trace validation of positions",
                text="TLC checks on every string of the configured alphabets that the incrementally maintained (line, column) of the "
                     "implementation-shaped machine equals the closed-form true position recomputed from the raw text (tabs, splices, trigraphs). "
                     "Every exported behaviour is replayed into the real Lexer; any difference is validated by TLC (LexerTrace.tla), which decides "
                     "the position law on the observed tokens; the repository's sample files are validated the same way.",
                note="bounded alphabets/lengths; TruePos is the specification's independent scanner; the highlight positions of lexical diagnostics predicted by Lexer.tla are strict when the tokens are the model's"),
    "C10": dict(ref="§4.10", tech="TLC model checking of Lexer.tla (TileInv/SpellInv/BadLexInv, dictionary injectivity over extracted tables) + replay + TLC trace validation",
                text="TLC checks that the machine's token spans tile the input, each token carries exactly the normalised text of its span, "
                     "valueless tokens are recoverable from their type (dictionaries extracted from the tree, injectivity ASSUMEd and re-checked), "
                     "and every skipped character has its BAD_LEXEME diagnostic. Replay and trace validation bind the real Lexer to it.",
                note="bounded alphabets/lengths; normalisation = splice removal, di/trigraph translation, tab expansion in block comments, read left to right"),
    "C11": dict(ref="§4.11", tech="TLC enumeration of Literals.tla (C11 6.4.4 grammar + malformed families) run through the Lexer.tla machine, law ClassOK; replay of every behaviour",
                text="TLC enumerates every literal of the valid families (written from the C grammar, all bases, first digits, suffix spellings, "
                     "exponent forms, escapes, prefixes) and of the malformed families M1..M13 in their contexts, runs the tokenizer machine on "
                     "each and evaluates ClassOK; departures of the transcribed implementation from the grammar are found inside the model. "
                     "Every behaviour is replayed into the real Lexer and judged by the same law.",
                note="digit strings and contexts bounded (level 1 in both tiers: TLC cannot build the level-2 universe within the budget, DESIGN 0.6); don't-care shapes listed in DESIGN 4.11"),
    "C12": dict(ref="§4.12", tech="TLC model checking of LexerRespell.tla (two machine instances, RespellInv over every faithful respelling) + paired replay; RespellProg.tla program-level respellings replayed through the whole tool",
                text="Two instances of the tokenizer machine run on a plain text and on every faithful respelling of it (digraph/trigraph per "
                     "character, none/one/two splices per token boundary); TLC checks that both produce the same (type, text) sequence for every "
                     "plain text of three alphabets up to the bound. Every exported pair is replayed: the real Lexer must produce equal "
                     "(type, value) sequences on both texts. Program level: RespellProg.tla respells whole derivations of Norm.tla / Viol.tla (all brace-like tokens as digraphs or "
                     "trigraphs, one line only, a splice at a token boundary); both renderings run through the whole tool: same tokens, and for the brace modes the same diagnostics "
                     "(codes and lines; LINE_TOO_LONG on lines that the longer spelling pushes past 80 excepted).",
                note="bounded alphabets/lengths/number of non-plain choices; program level simulated (seeded)"),
    "C04": dict(ref="§4.4", tech="TLC model checking of Driver.tla (history family: OneVerdictPerFile, OKIffNoError, ExitZeroIffAllOK, FatalNamesFileAndFails, EmptySelectionClean) + CLI replay of every behaviour",
                text="TLC explores main() as a state machine over every sequence of file classes (clean, notice, erroneous, unparsable, unparsable in #if) up to the bound, "
                     "given as explicit paths or through a directory, in both formats, and checks the verdict/exit-status properties in every final state. Every explored "
                     "behaviour is materialised and executed through the real command line; decoded verdict lines and exit status must equal the model's.",
                note="class representatives from harness/corpus.py; exhaustive up to 3 (quick) / 4 (thorough) files, longer histories sampled"),
    "C06": dict(ref="§4.6", tech="TLC (Driver.tla SharedStateRestored/PureVerdict; RuleOrder.tla over extracted priority tables) + replay of concrete histories against solo runs + listing permutations",
                text="The model states that a file's verdict is a function of its class and that shared state is restored; RuleOrder.tla checks on the extracted tables that rule order "
                     "cannot depend on the directory listing. All sequences over nine concrete files are run as one command line and as one library session; each file's findings "
                     "must equal its solo findings; the rules directory listing is permuted in subprocesses.",
                note="ten concrete files incl. a 95-deep nesting and three kinds of fatal error; sequences up to length 2 (quick) / 3 (thorough); probe sessions: ~280 (quick) corpus and hand-written probe files alone vs after every concrete file and after each other in one process"),
    "C08": dict(ref="§4.8", tech="TLC check of the comparator laws on a transcription of Error.__lt__ (Report.tla) validated point-wise against the code + decoded CLI reports in three formats",
                text="TLC checks on all pairs/triples of a small diagnostic domain that the transcribed comparator is a strict total order and lists diagnostics in ascending displayed "
                     "position; the Python comparator is compared point-wise with the transcription on the whole domain. Reports of corpus and stress files are decoded from "
                     "humanized, coloured and JSON output and checked for catalogue codes/texts, levels, positions inside the file, ascending order and equality of the formats.",
                note="comparator domain 2 lines x 3 columns x 2 codes x highlight lists of length <= 2"),
    "C15": dict(ref="§4.15", tech="TLC model checking of Driver.tla (tree family: SelectedExactly against the work-list-free definition Selected) + CLI replay on materialised trees",
                text="TLC explores the work-list algorithm of main() over every directory tree up to the bound (look-alike suffixes, names with spaces and dots, a directory named "
                     "sub.c, nesting, git-ignored files) and every argument list, with and without --use-gitignore, and checks that the analysed files are exactly the intended "
                     "selection. A covering sample is materialised (git init + .gitignore where needed) and run through the real CLI.",
                note="trees up to 3 nodes, argument lists up to 1 + every overlapping pair of arguments (quick) / 2 (thorough); hidden names and symlinks outside the domain"),
    "C16": dict(ref="§4.16", tech="TLC enumeration of every option combination (Driver.tla, OptionsArePresentation) + CLI replay of each, findings compared with the default-option findings",
                text="TLC enumerates format x colours x -o x debug x -R word (incl. near misses of CheckDefine) x file/--cfile/--filename for each file class; every combination is "
                     "executed through the real CLI; decoded verdict and diagnostics must equal those under default options (minus the #define-value codes for -R CheckDefine).",
                note="the model side is near-tautological (it is the statement); the weight is on the exhaustive replay; -R words include every rule name extracted from the registry, applied to a file with eleven different diagnostics"),
    "C01": dict(ref="§4.1", tech="TLC exploration of Norm.tla (exhaustive over body structures + simulation of the full conforming grammar; IndentIsDepth, DepthZeroAtTop, WidthOK) + replay of every derivation into the real pipeline and CLI",
                text="Norm.tla generates Norm-conforming .c and .h translation units line by line together with the scope chain the engine must keep; TLC explores every body structure "
                     "of a small bound exhaustively and the full grammar in simulation, checking that the tabs written equal the engine's indentation, widths stay <= 80 and counters "
                     "within limits. Every derivation is concretised and run: verdict OK, no Error-level diagnostic, no fatal error; a sample through the real command line.",
                note="the conforming grammar is my reading of the Norm (DESIGN 4.1); simulation is seeded; every run also checks EngineAgrees (NormEngine.tla: the implementation-shaped Engine.tla, fed with the program's statement events, ends in the scope chain the grammar assumed)"),
    "C07": dict(ref="§4.7", tech="TLC exploration of Norm.tla (statement kind + scope chain per line; DepthZeroAtTop) + statement events observed at Context.pop_tokens compared with the derivation; Garbage.tla insertions replayed; TLC model checking of EngineMC.tla + TLC trace validation of recorded statement traces (EngineTrace.tla)",
                text="Each derivation of Norm.tla carries, per line, the statement the engine must report. The events observed at Context.pop_tokens for the concretised program must "
                     "tile the token list, each consume at least one token, be exactly as many as the derivation has lines, start in column 1, end with NEWLINE, and the scope must be "
                     "back at file level after each function. Garbage.tla inserts every unrecognisable fragment of its catalogue at every token boundary of small derivations, with and "
                     "without trailing newline: the run must end in a fatal diagnostic / Error, never OK!. The engine's design (Engine.tla: Registry.run loop, Context.update, "
                     "IsBlockStart history walk, IsBlockEnd, pending scope, single-line control scopes) is model-checked over every well-bracketed event sequence up to the bound "
                     "(EngineMC.tla: DepthMatches, DepthBack, LinesConserved, WellFormed; its behaviours are replayed statement by statement into the real Registry.run and the scope chain and "
                     "line counter compared after each), and statement traces recorded from the real Registry.run on the repository's sample files "
                     "and on a corpus sample are validated event by event by TLC (EngineTrace.tla: partition, well-formedness, depth strict; chain / line counters vs Engine!Step soft).",
                note="observation by wrapping Context.pop_tokens (harness-side); rule-kind equality is a soft check"),
    "C02": dict(ref="§4.2", tech="TLC exploration of Viol.tla (Norm.tla + 62 violation operators, one applied at one site; simulation + exhaustive (operator, site) pairs over small structures) + replay",
                text="A completed conforming derivation receives exactly one operator of the violation catalogue at one applicable site; the state records the code(s) that must be "
                     "reported, the line, and a description of the site. TLC explores random (program, operator, site) triples over the full grammar and every pair over every small "
                     "body structure. Each program is run: the code must be on the predicted line, the status Error, the CLI exit status non-zero. Misses are violations unless the "
                     "(operator, site class) is a listed finding.",
                note="operators calibrated against the Norm text (DESIGN 4.2); known findings keyed by operator and site class"),
    "C03": dict(ref="§4.3", tech="TLC enumeration of Limits.tla (complete product limit x measure x context, MeasureOK through the specification's width/count functions) + replay with iff oracle",
                text="For each limit and each measure n in [L-3, L+6] and each context, Limits.tla builds one derivation from Norm.tla's line constructors; TLC enumerates the whole product and "
                     "checks that the measure computed by the specification (visual width with 4-column tab stops, counts) is n. Each derivation is run with several spellings: the limit "
                     "diagnostic must be on the expected line if and only if n > L. The engine behind the 25-line limit is model-checked (EngineMC.tla: line breaks are conserved through "
                     "every nesting, the Function scope holds exactly the lines of the body) and the recorded scope chain / line counters of the function-length cases are validated "
                     "against Engine!Step by TLC (EngineTrace.tla).",
                note="700+ cases; contexts listed in the evidence rule"),
    "C13": dict(ref="§4.13", tech="TLC enumeration of Header42.tla (template as 80-column abstract lines, HeaderOK recogniser, 31 structural mutations) + replay counting INVALID_HEADER",
                text="The stdheader template is a sequence of abstract lines whose widths TLC checks to be exactly 80 for every shape; the intended recogniser accepts it and rejects every "
                     "structural mutation. Every (shape, mutation, body) is rendered with several spellings of the fields and run: INVALID_HEADER must appear 0 times for an unmutated header "
                     "(also when a comment or code follows it directly) and exactly once for every mutation.",
                note="template ported from stdheader.vim (left text clipped and padded to 45 columns + 25-column art rows; reproduces the repository's sample header byte for byte); shapes: 10 covering incl. clipped By / Created / file-name fields (quick) / all combinations of the length classes (thorough)"),
    "C14": dict(ref="§4.14", tech="TLC enumeration of Guard.tla (Guard(name) over character sequences, 15 guard cases per name, .c twins) + replay under that file name",
                text="Guard(name) is defined in the specification; TLC enumerates every header base name of a small alphabet (double dots, trailing underscores) and every guard case and checks the "
                     "symbols are well formed and the mutated ones differ. Each case is run under that file name: the demanded HEADER_PROT_* code must sit on the demanded directive, a correct "
                     "guard and every .c twin must give none.",
                note="names of length 1..2 (quick) / 1..3 (thorough) + '.h'; names starting with a digit or a dot are outside the domain"),
    "C17": dict(ref="§4.17", tech="TLC-generated corpora of Norm.tla/Viol.tla (comments, strings, chars are width-only slots) + paired replay with two filler classes",
                text="In the specification the inside of a comment, string or character constant is a slot of a given width: no action reads it. Every derivation of the conforming and "
                     "single-violation corpora is rendered twice with the text inside drawn from two different filler classes (operators, brackets, semicolons, keywords, preprocessor "
                     "words, the other quote, digits, ...; adversarial endings) and identical everything else; the two runs must give identical diagnostics.",
                note="corpora from TLC simulation (seeded); 13 filler classes incl. digraphs and trigraphs; the violation variants that add quoted text are compared under every class; the 42 header and #include strings are excluded as the property says"),
    "C18": dict(ref="§4.18", tech="TLC-generated corpora (identifiers are class/width/identity slots) + Guard/Header42 products + paired replay under three renaming styles; TLC check keyword table vs spellings",
                text="Identifiers are slots in Norm.tla: no action reads a spelling. Every derivation is rendered twice with different identifier spellings of the same class and length "
                     "(independent names, names built around other names of the file, keyword-prefixed names); diagnostics must be identical in code, line and column. TLC checks on the "
                     "extracted keyword table that no spelling of an ordinary identifier class is a keyword.",
                note="renaming is applied at slot level, consistent by construction"),
    "C19": dict(ref="§4.19", tech="TLC exploration of Locality.tla (derivation paired with header-removed / comment-inserted / function-appended transform, PairWellFormed) + paired replay evaluating the law",
                text="Locality.tla pairs each derivation (conforming or with one violation) with a transform and the law its diagnostics must obey; TLC explores derivations x boundaries in "
                     "simulation. Both texts are rendered with the same spellings and run; the law (shift by 12 minus INVALID_HEADER / shift by 1 from the insertion line / unchanged) is "
                     "evaluated on the real diagnostics.",
                note="boundaries between two consecutive empty lines and EOF-dependent violations are excluded (the law does not hold there by definition)"),
}

NOT_YET = {
}


def main():
    props = [json.loads(l) for l in open(os.path.join(HERE, "properties.jsonl"))]
    checks = []
    na = []
    for p in props:
        pid = p["id"]
        if pid in CHECKS:
            c = CHECKS[pid]
            checks.append(dict(
                property_id=pid,
                quick_cmd=f"./check {pid} --tier quick",
                thorough_cmd=f"./check {pid} --tier thorough",
                evidence_file=f"/verif/evidence/{pid}.json",
                replay_cmd_template=f"./check {pid} --replay {{path}}",
                engine="tlc",
                level_claimed=dict(category="model_checking", text=c["text"], design_ref=c["ref"]),
                level_note=c["note"],
                technique=c["tech"]))
        else:
            na.append(dict(property_id=pid, reason=NOT_YET.get(pid, "check under construction in this session: not claimed until its TLA+ model and conformance harness run clean on the unchanged tree")))
    m = dict(
        version=1,
        setup_cmd="./check setup",
        hooks=dict(guard="NORMINETTE_VERIF", enable="no source hooks are used: observation is harness-side (public API, name-mangled cursor read); the variable is reserved",
                   baseline_off_cmd=BASE_CMD, source_commits=[], add_only=True),
        engines=[dict(name="tlc", path="/verif/spec", serves_properties=sorted(CHECKS),
                      kind_free_text="explicit TLA+ specifications checked with TLC 1.8; behaviours replayed into the implementation and implementation traces validated by TLC")],
        checks=checks,
        notes="fix: commits in /repo are listed in known_findings.json (status fixed). Replay files under /verif/replays/<id>/.",
        not_applicable=na)
    with open(os.path.join(HERE, "MANIFEST.json"), "w") as f:
        json.dump(m, f, indent=1)
    print(f"{len(checks)} checks, {len(na)} not_applicable")


if __name__ == "__main__":
    main()
