#!/bin/sh
# run every check's quick (or $1) tier on the current tree; print a one-line summary per check
tier=${1:-quick}
cd /verif
for id in ${IDS:-C01 C02 C03 C04 C05 C06 C07 C08 C09 C10 C11 C12 C13 C14 C15 C16 C17 C18 C19}; do
  s=$(date +%s)
  ./check $id --tier $tier > /tmp/runall-$id.log 2>&1; rc=$?
  e=$(date +%s)
  echo "$id exit=$rc $((e-s))s violations=$(grep -c '^VIOLATION' /tmp/runall-$id.log) known=$(grep -c '^KNOWN-FINDING' /tmp/runall-$id.log) drift=$(grep -c 'spec-drift' /tmp/runall-$id.log)"
done
