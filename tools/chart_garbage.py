#!/venv/bin/python
"""Off-line: chart, per (fragment, where, next line kind, previous line kind, final newline), whether the tool
silently accepts an unrecognisable fragment (file still OK).  Never run by a check."""
import sys, json, collections
sys.path.insert(0, "/verif/harness"); sys.path.insert(0, "/verif/harness/props")
import tlc, normgen, observe, extract, driverprops
extract.write()
def work(job):
    rec = job["rec"]
    name, text, lm = normgen.render(rec, 1)
    g = rec["garb"]
    if g["nonl"]:
        text = text.rstrip("\n")
    line = lm[g["at"] - 1]
    o = observe.run_file(text, name)
    if o["exc"]: oc = "EXC:" + o["exc"]
    elif o["fatal"]: oc = "fatal"
    elif o["status"] == "OK": oc = "SILENT_OK"
    elif any(d[2] == line for d in o["diags"] if d[0] == "Error"): oc = "error_on_line"
    else: oc = "error_elsewhere"
    return (g["frag"], g["where"], g["next"], g["prev"], g["nonl"]), oc, text.split("\n")[line - 1]
tab = collections.defaultdict(collections.Counter); ex = {}
for kind, mb, mod in (("c", 3, 3), ("c", 3, 5), ("h", 4, 2), ("h", 4, 1)):
    cfg = tlc.cfg_text(spec="GarbSpec", constants=normgen.consts(1, mb, 2, 0, False, kind, False) + [f"GSelMod = {mod}", "GSelRes = 0"],
                       invariants=["GarbWellFormed", "ExportInv"])
    r = tlc.run(name=f"garb-{kind}", root="GarbageMC", defs={}, cfg=cfg, workers=8, timeout=3000, heap="8g")
    print(kind, r.ok, r.violated, (r.error or "")[:300], len(r.exports), file=sys.stderr, flush=True)
    for key, oc, ln in driverprops.pool_map(work, [dict(rec=x) for x in r.exports]):
        tab[key][oc] += 1; ex.setdefault((key, oc), ln)
silent = sorted(k for k in tab if tab[k]["SILENT_OK"])
json.dump(dict(silent=[list(k) for k in silent], table={json.dumps(k): dict(v) for k, v in tab.items()}), open("/tmp/garbage-chart.json", "w"), indent=0)
print(len(tab), "classes;", len(silent), "with silent OK;", sum(1 for k in silent if len(tab[k]) == 1), "always silent", file=sys.stderr)
for k in sorted(tab): print(k, dict(tab[k]), repr(ex.get((k, "SILENT_OK"), ""))[:60])
