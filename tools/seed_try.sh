#!/bin/sh
# usage: seed_try.sh <seed-dir> [check ids...]
# Confirms a seeded change in a scratch worktree (tests pass, demo fails with / passes without),
# then runs the named checks against it through NORMINETTE_REPO.  Scratch worktree removed afterwards.
d=$1; shift
wt=/tmp/wt/try-$$
git -C /repo worktree add -q --detach $wt HEAD || exit 2
trap 'git -C /repo worktree remove --force '$wt' >/dev/null 2>&1' EXIT
echo "--- demo on clean tree (expect exit 0)"
NORMINETTE_REPO=$wt /venv/bin/python $d/demo.py >/tmp/demo-clean.$$ 2>&1; echo "exit=$?"; tail -2 /tmp/demo-clean.$$
git -C $wt apply $d/patch.diff || { echo "PATCH DOES NOT APPLY"; exit 2; }
echo "--- test suite with the change"
(cd $wt && PYTHONPATH=$wt /venv/bin/python -m pytest -q -p no:cacheprovider 2>&1 | tail -1)
echo "--- demo with the change (expect exit 1)"
NORMINETTE_REPO=$wt /venv/bin/python $d/demo.py >/tmp/demo-mut.$$ 2>&1; echo "exit=$?"; tail -3 /tmp/demo-mut.$$
for c in "$@"; do
  echo "--- ./check $c --tier quick against the change"
  cp /verif/evidence/$c.json /tmp/evid-keep-$c.$$ 2>/dev/null      # the committed evidence is that of the unchanged tree
  (cd /verif && NORMINETTE_REPO=$wt ./check $c --tier quick >/tmp/seedrun.$$ 2>&1; echo "exit=$?"; grep -E "VIOLATION|MACHINERY" /tmp/seedrun.$$ | head -3; grep -c "KNOWN-FINDING" /tmp/seedrun.$$ | sed 's/^/known-finding lines: /'; rm -f /tmp/seedrun.$$)
  cp /verif/evidence/$c.json /tmp/evid-mut-$c.json 2>/dev/null
  [ -f /tmp/evid-keep-$c.$$ ] && mv /tmp/evid-keep-$c.$$ /verif/evidence/$c.json
done
rm -f /tmp/demo-clean.$$ /tmp/demo-mut.$$
