"""Shared plumbing: locate the implementation under test, paths, seeds.

Every check imports norminette from the tree named by NORMINETTE_REPO (default
/repo) -- the *working tree*, never an installed copy -- and asserts that this
is what it got.
"""
import os
import sys
import json
import time
import hashlib
import random

VERIF = os.path.dirname(os.path.dirname(os.path.abspath(__file__)))
REPO = os.environ.get("NORMINETTE_REPO", "/repo")
SPEC = os.path.join(VERIF, "spec")
BUILD = os.path.join(VERIF, "build")
EVID = os.path.join(VERIF, "evidence")
REPLAYS = os.path.join(VERIF, "replays")
PY = "/venv/bin/python"

os.environ.setdefault("PYTHONHASHSEED", "0")


def seed() -> int:
    try:
        return int(os.environ.get("VERIF_SEED", "0"))
    except ValueError:
        return 0


def rng(tag: str = "") -> random.Random:
    return random.Random(f"{seed()}:{tag}")


def import_impl():
    """Put REPO first on sys.path and import norminette from there."""
    if REPO not in sys.path[:1]:
        sys.path.insert(0, REPO)
    for k in [k for k in sys.modules if k == "norminette" or k.startswith("norminette.")]:
        mod = sys.modules[k]
        f = getattr(mod, "__file__", "") or ""
        if not f.startswith(REPO + os.sep):
            del sys.modules[k]
    import norminette  # noqa
    f = os.path.realpath(norminette.__file__)
    if not f.startswith(os.path.realpath(REPO) + os.sep):
        print(f"MACHINERY: norminette imported from {f}, expected under {REPO}", file=sys.stderr)
        sys.exit(2)
    return norminette


def ensure_dirs():
    for d in (BUILD, EVID, REPLAYS):
        os.makedirs(d, exist_ok=True)


def sha(*parts) -> str:
    h = hashlib.sha256()
    for p in parts:
        if isinstance(p, str):
            p = p.encode()
        h.update(p)
        h.update(b"\0")
    return h.hexdigest()[:16]


def write_replay(pid: str, record: dict) -> str:
    d = os.path.join(REPLAYS, pid)
    os.makedirs(d, exist_ok=True)
    body = json.dumps(record, sort_keys=True, indent=1, default=str)
    path = os.path.join(d, sha(body) + ".json")
    with open(path, "w") as f:
        f.write(body)
    return path


class Timer:
    def __init__(self):
        self.t0 = time.time()

    def s(self):
        return round(time.time() - self.t0, 2)
