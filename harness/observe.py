"""Harness-side observation of the implementation (no source hooks needed:
norminette is a sequential library whose API exposes the abstract state)."""
import io
import os
import sys
import contextlib

from common import import_impl

import_impl()
from norminette.file import File  # noqa: E402
from norminette.lexer import Lexer  # noqa: E402
from norminette.lexer import dictionary as D  # noqa: E402

SPELL = {}
for _tab in (D.keywords, D.operators, D.brackets):
    for _k, _v in _tab.items():
        SPELL.setdefault(_v, _k)
SPELL.update({"SPACE": " ", "TAB": "\t", "NEWLINE": "\n"})


import signal


class Hang(BaseException):
    """raised by the watchdog when the implementation does not come back within the budget"""


class watchdog:
    """CPU-time budget (user + system time of this process: ITIMER_PROF) around one call into the implementation, main thread
    only.  CPU time, not wall-clock time: a loaded machine must not turn into a "hang" (it did once, in the thorough tier, while
    other checks were running); an endless loop burns CPU and is caught all the same."""

    def __init__(self, seconds=10.0):
        self.seconds = seconds

    def _fire(self, signum, frame):
        raise Hang()

    def __enter__(self):
        try:
            self.old = signal.signal(signal.SIGPROF, self._fire)
            signal.setitimer(signal.ITIMER_PROF, self.seconds)
            self.armed = True
        except ValueError:       # not in the main thread: no budget
            self.armed = False
        return self

    def __exit__(self, *a):
        if self.armed:
            signal.setitimer(signal.ITIMER_PROF, 0)
            signal.signal(signal.SIGPROF, self.old)
        return False


def tok_text(t):
    if t.value is not None:
        return t.value
    return SPELL.get(t.type)


LEX_BUDGET = 3.0        # seconds per token: the inputs of the checks are tiny
HANGS = {"n": 0}        # hangs seen by this process: after a few, callers stop feeding it (circuit breaker)


def lex(text, name="file.c"):
    """Tokenize; returns dict(tokens=[...], diags=[...], exc=None|str).

    tokens: (type, text, line, col, raw_end)  -- raw_end is the 1-based offset of the first
    character after the token, read from the lexer's own cursor after the token was produced.
    """
    if HANGS["n"] >= 3:      # circuit breaker: this process has seen the implementation hang three times
        return dict(tokens=[], diags=[], exc="NotRun", excframe="hang-breaker", end=1)
    f = File(name, text)
    lx = Lexer(f)
    toks = []
    exc = None
    excframe = None
    it = iter(lx)
    while True:
        try:
            with watchdog(LEX_BUDGET):
                t = next(it)
        except StopIteration:
            break
        except BaseException as e:  # noqa
            exc = type(e).__name__
            if exc == "Hang":
                HANGS["n"] += 1
            import traceback
            fr = [x for x in traceback.extract_tb(e.__traceback__) if "/norminette/" in x.filename]
            excframe = fr[-1].name if fr else "?"
            break
        toks.append((t.type, tok_text(t), t.pos[0], t.pos[1], lx._Lexer__pos + 1, t.value is not None))
        if len(toks) > 4 * len(text) + 16:
            exc = "TooManyTokens"
            break
    diags = []
    for e in f.errors._inner:
        diags.append((e.name, e.level, [(h.lineno, h.column) for h in e.highlights], e.text))
    return dict(tokens=toks, diags=diags, exc=exc, excframe=excframe, end=lx._Lexer__pos + 1)


def exc_site(e):
    """exception type @ innermost norminette frame < nearest rule module frame (the crash site used as finding key)"""
    import traceback
    tb = traceback.extract_tb(e.__traceback__)
    fr = [x for x in tb if "/norminette/" in x.filename]
    if not fr:
        return type(e).__name__
    where = f"{os.path.basename(fr[-1].filename)}:{fr[-1].name}"
    rules = [x for x in fr if "/rules/" in x.filename]
    via = f"<{os.path.basename(rules[-1].filename)[:-3]}" if rules and rules[-1] is not fr[-1] else ""
    name = type(e).__name__
    if name in ("_TO", "Hang"):
        name = "Hang"
    return f"{name}@{where}{via}"


def run_file(text, name="file.c", debug=0, added=None):
    """Lexer + Context + Registry.run on one in-memory file.  Returns
    dict(status, diags=[(level, code, line, col, text)], fatal=None|msg, exc=None|type, stdout)."""
    from norminette.context import Context
    from norminette.registry import Registry
    from norminette.exceptions import CParsingError
    global _REG
    try:
        reg = _REG
    except NameError:
        reg = _REG = Registry()
    f = File(name, text)
    out = io.StringIO()
    res = dict(status=None, diags=[], fatal=None, exc=None, stdout="")
    if HANGS["n"] >= 3:
        res["exc"] = "NotRun@hang-breaker"
        return res
    try:
        with contextlib.redirect_stdout(out), watchdog(6.0):
            tokens = list(Lexer(f))
            ctx = Context(f, tokens, debug, added)
            reg.run(ctx)
    except CParsingError as e:
        res["fatal"] = e.msg
    except RecursionError:
        res["exc"] = "RecursionError"
    except BaseException as e:  # noqa
        import traceback
        tb = traceback.extract_tb(e.__traceback__)
        res["exc"] = exc_site(e)
        if res["exc"].startswith("Hang"):
            HANGS["n"] += 1
    res["stdout"] = out.getvalue()
    if res["fatal"] is None and res["exc"] is None:
        res["status"] = f.errors.status
    for e in f.errors:
        h = e.highlights[0] if e.highlights else None
        res["diags"].append((e.level, e.name, h.lineno if h else None, h.column if h else None, e.text))
    return res


def run_file_traced(text, name="file.c", debug=0, added=None):
    """like run_file, plus the statement trace observed at Context.pop_tokens (the observation point the C07
    anchor names): one event per main-loop iteration:
      (rule or None for an unrecognised token, tokens consumed, first line, first col, last token type,
       scope name while the statement was matched, number of tokens left before)"""
    from norminette.context import Context
    from norminette.registry import Registry
    from norminette.exceptions import CParsingError
    global _REG
    try:
        reg = _REG
    except NameError:
        reg = _REG = Registry()
    f = File(name, text)
    out = io.StringIO()
    res = dict(status=None, diags=[], fatal=None, exc=None, stdout="", events=[], ntokens=0)
    events = res["events"]
    if HANGS["n"] >= 3:
        res["exc"] = "NotRun@hang-breaker"
        return res
    try:
        with contextlib.redirect_stdout(out), watchdog(6.0):
            tokens = list(Lexer(f))
            res["ntokens"] = len(tokens)
            ctx = Context(f, tokens, debug, added)
            orig = ctx.pop_tokens

            def pop_tokens(stop, _ctx=ctx, _orig=orig):
                toks = _ctx.tokens
                n = stop
                first = toks[0] if toks else None
                last = toks[min(n, len(toks)) - 1] if toks and n >= 1 else None
                matched = bool(_ctx.history) and getattr(pop_tokens, "hist", 0) != len(_ctx.history)
                pop_tokens.hist = len(_ctx.history)
                events.append((_ctx.history[-1].name if matched else None, n,
                               first.pos[0] if first else None, first.pos[1] if first else None,
                               last.type if last else None, _ctx.scope.name, len(toks)))
                return _orig(stop)
            pop_tokens.hist = 0
            ctx.pop_tokens = pop_tokens
            reg.run(ctx)
    except CParsingError as e:
        res["fatal"] = e.msg
    except RecursionError:
        res["exc"] = "RecursionError"
    except BaseException as e:  # noqa
        import traceback
        tb = traceback.extract_tb(e.__traceback__)
        res["exc"] = exc_site(e)
        if res["exc"].startswith("Hang"):
            HANGS["n"] += 1
    res["stdout"] = out.getvalue()
    if res["fatal"] is None and res["exc"] is None:
        res["status"] = f.errors.status
    for e in f.errors:
        h = e.highlights[0] if e.highlights else None
        res["diags"].append((e.level, e.name, h.lineno if h else None, h.column if h else None, e.text))
    return res


WS = ("SPACE", "TAB")
WSNL = ("SPACE", "TAB", "NEWLINE")


def engine_trace(text, name="file.c"):
    """statement events with the token-level facts Engine.tla needs, recorded at Context.pop_tokens
    (after Context.update), plus the scope chain the implementation holds after each statement"""
    from norminette.context import Context
    from norminette.registry import Registry
    from norminette.exceptions import CParsingError
    global _REG
    try:
        reg = _REG
    except NameError:
        reg = _REG = Registry()
    f = File(name, text)
    out = io.StringIO()
    res = dict(events=[], ntokens=0, complete=False, fatal=None, exc=None)
    events = res["events"]
    state = dict(hist=0, before=None)
    try:
        with contextlib.redirect_stdout(out), watchdog(6.0):
            tokens = list(Lexer(f))
            res["ntokens"] = len(tokens)
            ctx = Context(f, tokens, 0, None)
            orig = ctx.pop_tokens

            def chain(sc):
                c = []
                while sc is not None:
                    c.append(dict(name=sc.name, multi=bool(sc.multiline)))
                    sc = sc.parent
                return c[::-1]
            state["before"] = chain(ctx.scope)

            def pop_tokens(stop):
                toks = ctx.tokens
                matched = len(ctx.history) != state["hist"]
                state["hist"] = len(ctx.history)
                if matched:
                    st = toks[:stop]
                    sig = [t for t in st if t.type not in WSNL]
                    rest = [t for t in toks[stop:stop + 12] if t.type not in WSNL]
                    rule = ctx.history[-1].name
                    last = sig[-1].type if sig else ""
                    first = sig[0].type if sig else ""
                    before = state["before"]
                    events.append(dict(
                        rule=rule, n=stop, nl=sum(1 for t in st if t.type == "NEWLINE")
                        + sum((t.value or "").count("\n") for t in st if t.type == "MULT_COMMENT"),   # lines, as CheckLineCount counts them
                        nextLBrace=bool(rest and rest[0].type == "LBRACE"),
                        opensControl=(rule == "IsControlStatement" and last != "SEMI_COLON"),
                        opensType=(rule == "IsUserDefinedType" and last != "SEMI_COLON" and bool(st) and st[-1].type == "NEWLINE"),
                        isEnum=any(t.type == "ENUM" for t in st),
                        leakedOuter=(rule not in ("IsBlockEnd",) and first == "RBRACE" and bool(before)
                                     and before[-1]["name"] in ("UserDefinedType", "UserDefinedEnum")),
                        after=chain(ctx.scope), lines=int(ctx.scope.lines)))
                else:
                    events.append(dict(rule="Skip", n=stop, nl=0, nextLBrace=False, opensControl=False, opensType=False, isEnum=False,
                                       leakedOuter=False, after=chain(ctx.scope), lines=int(ctx.scope.lines)))
                state["before"] = chain(ctx.scope)
                return orig(stop)
            ctx.pop_tokens = pop_tokens
            reg.run(ctx)
            res["complete"] = True
    except CParsingError as e:
        res["fatal"] = e.msg
    except BaseException as e:  # noqa
        res["exc"] = exc_site(e)
    return res
