"""C12: alternative spellings and line splices do not change the tokens (DESIGN section 4.12).

 1. TLC checks LexerRespell.tla: two instances of the tokenizer machine, on a plain text and on every
    faithful respelling of it (digraph / trigraph per character, optional splice per token boundary),
    produce the same (type, text) sequence -- RespellInv, PrefixInv, NoCrashB -- exhaustively per alphabet.
 2. Direction A: every exported pair is replayed: the real Lexer runs on both texts and the two observed
    (type, value) sequences must be equal (the property itself, evaluated on the implementation) and equal
    to the model's.  3. Differing pairs: attributed to a listed known deviation when the model met its site.
"""
import cache
import tlc
import extract
import observe
import lexmodel
from evidence import Run, known_keys

NL = "\n"
ALPHABETS = {
    # name: (chars, MaxLen quick, MaxLen thorough, MaxAlt quick, MaxAlt thorough)
    "punct": (list("{}[]#\\^|~") + ["a", " ", NL, "=", "<"], 3, 4, 3, 3),
    "ops":   (list("^|&=<>~!+-") + ["a", ";"], 3, 4, 3, 4),
    "quote": (['"', "'", "\\", "{", "#", "|", "a", NL, "n", "/", "*"], 3, 4, 3, 3),
}


def job(cfgname, alpha, maxlen, maxalt, s, n):
    cfg = tlc.cfg_text(spec="RSpec",
                       constants=["Alpha <- cAlpha", f"MaxLen = {maxlen}", "Dev <- cDev", f"Shard = {s}",
                                  f"NShards = {n}", f"MaxAlt = {maxalt}"],
                       invariants=["RespellInv", "NoCrashB", "PrefixInv", "ExportInv"])
    return dict(name=f"respell-{cfgname}-{s}", root="LexerRespellMC",
                defs={"cAlpha": tlc.tla_chars(alpha), "cDev": "{}"}, cfg=cfg, workers=1, timeout=3000)


def cached(cfgname, maxlen, maxalt):
    alpha = ALPHABETS[cfgname][0]
    k = cache.key("respell", cfgname, alpha, maxlen, maxalt)
    c = cache.get(k)
    if c is not None:
        return [lexmodel.Stat(s) for s in c["stats"]], c["exports"], True
    rs = tlc.run_many([job(cfgname, alpha, maxlen, maxalt, s, 16) for s in range(16)])
    exports = []
    for r in rs:
        exports.extend(r.exports)
        r.exports = []
    stats = [dict(distinct=r.distinct, generated=r.generated, wall=r.wall, ok=r.ok, violated=r.violated,
                  error=r.error, stdout_path=r.stdout_path) for r in rs]
    if all(r.ok for r in rs):
        cache.put(k, dict(stats=stats, exports=exports))
    return [lexmodel.Stat(s) for s in stats], exports, False


def tt(o):
    return [(t[0], t[1]) for t in o["tokens"]]


def run(pid, tier):
    R = Run(pid, tier)
    extract.write()
    kk = known_keys()
    R.cov["rule"] = ("all plain strings up to MaxLen over each alphabet x every faithful respelling with at most MaxAlt "
                     "non-plain choices (TLC, exhaustive); each pair replayed into the real Lexer; non-trivial = the plain "
                     "text has at least one token; distinct = distinct (plain, respelled) pairs")
    for cfgname, (alpha, ql, tl, qa, ta) in ALPHABETS.items():
        maxlen, maxalt = (ql, qa) if tier == "quick" else (tl, ta)
        try:
            stats, exports, was_cached = cached(cfgname, maxlen, maxalt)
        except Exception as e:  # noqa
            R.machinery(f"TLC respell {cfgname}: {e}")
            return R.finish()
        R.add_tlc(f"LexerRespell/{cfgname}/MaxLen={maxlen}/MaxAlt={maxalt}", stats, cached=was_cached)
        bad = [s for s in stats if not s.ok]
        if bad:
            b = bad[0]
            if b.violated:
                R.violation(dict(kind="tlc_invariant", config=cfgname, invariant=b.violated, detail=(b.error or "")[:4000]))
                continue
            R.machinery(f"TLC {cfgname}: {b.error}")
            return R.finish()
        memo = {}
        for rec in exports:
            a = "".join(rec["a"])
            b = "".join(rec["b"])
            pred = [(t["t"], "".join(t["x"])) for t in rec["toks"]]
            if a not in memo:
                memo[a] = observe.lex(a)
            oa = memo[a]
            ob = observe.lex(b)
            R.case((a, b), nontrivial=bool(pred))
            if oa["exc"] is None and ob["exc"] is None and tt(oa) == tt(ob):
                R.validated()
                if tt(oa) != pred:
                    R.soft(f"pair {a!r}/{b!r}: both runs agree but differ from LexerRespell's prediction")
                elif len(pred) >= 2 and len(b) > len(a) + 2:
                    R.sample(dict(plain=a, respelled=b, tokens=pred))
                continue
            hit = [s for s in rec.get("sites", []) if s in kk]
            if hit:
                for k in hit:
                    R.known(k)
                continue
            R.violation(dict(kind="respell_pair", plain=a, respelled=b, tokens_plain=tt(oa), tokens_respelled=tt(ob),
                             exc=[oa["exc"], ob["exc"]], predicted=pred))
    R.assumptions += ["respellings are faithful: decoding the respelled text by the C rules gives back the plain text",
                      "splices are inserted only at boundaries between two tokens of the plain run"]
    return R.finish()


def replay(pid, path):
    import json
    rec = json.load(open(path))
    oa, ob = observe.lex(rec["plain"]), observe.lex(rec["respelled"])
    print("plain    :", tt(oa), oa["exc"])
    print("respelled:", tt(ob), ob["exc"])
    if oa["exc"] or ob["exc"] or tt(oa) != tt(ob):
        print(f"VIOLATION property={pid} replay={path}")
        return 1
    return 0
