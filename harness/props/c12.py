"""C12: alternative spellings and line splices do not change the tokens (DESIGN section 4.12).

 1. TLC checks LexerRespell.tla: two instances of the tokenizer machine, on a plain text and on every
    faithful respelling of it (digraph / trigraph per character, optional splice per token boundary),
    produce the same (type, text) sequence -- RespellInv, PrefixInv, NoCrashB -- exhaustively per alphabet.
 2. Direction A: every exported pair is replayed: the real Lexer runs on both texts and the two observed
    (type, value) sequences must be equal (the property itself, evaluated on the implementation) and equal
    to the model's.  3. Differing pairs: attributed to a listed known deviation when the model met its site.
"""
import cache
import tlc
import extract
import observe
import lexmodel
from evidence import Run, known_keys

NL = "\n"
ALPHABETS = {
    # name: (chars, MaxLen quick, MaxLen thorough, MaxAlt quick, MaxAlt thorough)
    "punct": (list("{}[]#\\^|~") + ["a", " ", NL, "=", "<"], 3, 3, 2, 3),
    "ops":   (list("^|&=<>~!+-") + ["a", ";"], 3, 4, 2, 2),        # MaxLen 4 x MaxAlt 3 is ~5e6 pairs: more than the harness holds
    "quote": (['"', "'", "\\", "{", "#", "|", "a", NL, "n", "/", "*"], 3, 4, 2, 2),
}


def job(cfgname, alpha, maxlen, maxalt, s, n):
    cfg = tlc.cfg_text(spec="RSpec",
                       constants=["Alpha <- cAlpha", f"MaxLen = {maxlen}", "Dev <- cDev", f"Shard = {s}",
                                  f"NShards = {n}", f"MaxAlt = {maxalt}"],
                       invariants=["RespellInv", "NoCrashB", "PrefixInv", "ExportInv"])
    return dict(name=f"respell-{cfgname}-{s}", root="LexerRespellMC",
                defs={"cAlpha": tlc.tla_chars(alpha), "cDev": "{}"}, cfg=cfg, workers=1, timeout=3000)


def cached(cfgname, maxlen, maxalt):
    alpha = ALPHABETS[cfgname][0]
    k = cache.key("respell", cfgname, alpha, maxlen, maxalt)
    c = cache.get(k)
    if c is not None:
        return [lexmodel.Stat(s) for s in c["stats"]], c["exports"], True
    rs = tlc.run_many([job(cfgname, alpha, maxlen, maxalt, s, 16) for s in range(16)])
    exports = []
    for r in rs:
        exports.extend(r.exports)
        r.exports = []
    stats = [dict(distinct=r.distinct, generated=r.generated, wall=r.wall, ok=r.ok, violated=r.violated,
                  error=r.error, stdout_path=r.stdout_path) for r in rs]
    if all(r.ok for r in rs):
        cache.put(k, dict(stats=stats, exports=exports))
    return [lexmodel.Stat(s) for s in stats], exports, False


def tt(o):
    return [(t[0], t[1]) for t in o["tokens"]]


def _pairs_chunk(exports):
    out = []
    memo = {}
    for rec in exports:
        a = "".join(rec["a"])
        b = "".join(rec["b"])
        pred = [(t["t"], "".join(t["x"])) for t in rec["toks"]]
        if a not in memo:
            memo[a] = observe.lex(a)
        oa = memo[a]
        ob = observe.lex(b)
        ok = oa["exc"] is None and ob["exc"] is None and tt(oa) == tt(ob)
        out.append((a, b, pred, ok, tt(oa) == pred, rec.get("sites", []), None if ok else tt(oa), None if ok else tt(ob),
                    [oa["exc"], ob["exc"]]))
    return out


def run(pid, tier):
    R = Run(pid, tier)
    extract.write()
    kk = known_keys()
    R.cov["rule"] = ("all plain strings up to MaxLen over each alphabet x every faithful respelling with at most MaxAlt "
                     "non-plain choices (TLC, exhaustive); each pair replayed into the real Lexer; non-trivial = the plain "
                     "text has at least one token; distinct = distinct (plain, respelled) pairs")
    for cfgname, (alpha, ql, tl, qa, ta) in ALPHABETS.items():
        maxlen, maxalt = (ql, qa) if tier == "quick" else (tl, ta)
        try:
            stats, exports, was_cached = cached(cfgname, maxlen, maxalt)
        except Exception as e:  # noqa
            R.machinery(f"TLC respell {cfgname}: {e}")
            return R.finish()
        R.add_tlc(f"LexerRespell/{cfgname}/MaxLen={maxlen}/MaxAlt={maxalt}", stats, cached=was_cached)
        bad = [s for s in stats if not s.ok]
        if bad:
            b = bad[0]
            if b.violated:
                R.violation(dict(kind="tlc_invariant", config=cfgname, invariant=b.violated, detail=(b.error or "")[:4000]))
                continue
            R.machinery(f"TLC {cfgname}: {b.error}")
            return R.finish()
        import driverprops
        chunks = [exports[i:i + 3000] for i in range(0, len(exports), 3000)]
        for part in driverprops.pool_map_shared(_pairs_chunk, chunks):
            for (a, b, pred, ok, agree, sites, ta, tb, excs) in part:
                R.case((a, b), nontrivial=bool(pred))
                if ok:
                    R.validated()
                    if not agree:
                        R.soft(f"pair {a!r}/{b!r}: both runs agree but differ from LexerRespell's prediction")
                    elif len(pred) >= 2 and len(b) > len(a) + 2:
                        R.sample(dict(plain=a, respelled=b, tokens=pred))
                    continue
                hit = [s for s in sites if s in kk]
                if hit:
                    for k in hit:
                        R.known(k)
                    continue
                R.violation(dict(kind="respell_pair", plain=a, respelled=b, tokens_plain=ta, tokens_respelled=tb, exc=excs, predicted=pred))
    program_level(R, tier)
    R.assumptions += ["respellings are faithful: decoding the respelled text by the C rules gives back the plain text",
                      "splices are inserted only at boundaries between two tokens of the plain run"]
    return R.finish()


# ------------------------------------------------------------------------------------------------ program level
def prog_corpus(tier, kind, withviol):
    import normgen
    from common import seed as verif_seed
    sd = verif_seed()
    # TLC's simulator evaluates the invariants on EVERY successor it generates, so each behaviour exports all the
    # respellings enabled at its last state (4 whole-file modes + every splice site picked + every line x 2: about 50)
    n = {("quick", "c"): 64, ("quick", "h"): 32, ("thorough", "c"): 640, ("thorough", "h"): 160}[(tier, kind)]
    k = cache.key("respellprog", kind, withviol, n, sd)
    c = cache.get(k)
    if c is not None:
        return [lexmodel.Stat(s) for s in c["stats"]], c["exports"], True
    per = max(1, n // 16)
    jobs = []
    for j in range(16):
        cfg = tlc.cfg_text(spec="RSpec2", constants=normgen.consts(5, 25, 3, 2, True, kind, withviol),
                           invariants=["IndentIsDepth", "DepthZeroAtTop", "Feasible", "RespellWellFormed", "ExportInv"])
        jobs.append(dict(name=f"rsp-{kind}{int(withviol)}-{j}", root="RespellProgMC", defs={}, cfg=cfg, workers=1, timeout=1800,
                         simulate=f"num={per}", depth=420, seed=sd * 1000 + j + (700 if withviol else 0)))
    rs = tlc.run_many(jobs)
    exports = []
    for r in rs:
        exports.extend(r.exports)
        r.exports = []
    stats = [dict(distinct=r.distinct, generated=r.generated, wall=r.wall, ok=r.ok, violated=r.violated, error=r.error,
                  stdout_path=r.stdout_path) for r in rs]
    if all(r.ok for r in rs):
        cache.put(k, dict(stats=stats, exports=exports))
    return [lexmodel.Stat(s) for s in stats], exports, False


def _work_prog(job):
    import normgen
    from concretise import Speller
    rec, sd = job["rec"], job["seed"]
    n1, t1, lm1 = normgen.render(rec, speller=Speller(sd), prog_key="prog", salt_by="index")
    n2, t2, lm2 = normgen.render(rec, speller=Speller(sd), prog_key="prog2", salt_by="index")
    o1, o2 = observe.lex(t1, n1), observe.lex(t2, n2)
    same_tokens = o1["exc"] is None and o2["exc"] is None and tt(o1) == tt(o2)
    res = dict(idx=job["idx"], same_tokens=same_tokens, mode=rec["rs"]["mode"], differs=t1 != t2)
    diag_ok = True
    if same_tokens and rec["rs"]["mode"].startswith("braces") or (same_tokens and rec["rs"]["mode"].startswith("one_line") and False):
        f1, f2 = observe.run_file(t1, n1), observe.run_file(t2, n2)
        long_lines = {lm2[i - 1] for i in rec["rs"]["long"]}
        d1 = sorted((d[1], d[2]) for d in f1["diags"])
        d2 = sorted((d[1], d[2]) for d in f2["diags"] if not (d[1] == "LINE_TOO_LONG" and d[2] in long_lines))
        diag_ok = d1 == d2 and bool(f1["fatal"]) == bool(f2["fatal"]) and f1["exc"] == f2["exc"]
        if not diag_ok:
            res.update(d1=d1[:10], d2=d2[:10], fatal=[f1["fatal"], f2["fatal"]], exc=[f1["exc"], f2["exc"]])
    res["diag_ok"] = diag_ok
    if not same_tokens or not diag_ok or job.get("keep"):
        res.update(text=t1, text2=t2)
        if not same_tokens:
            a, b = tt(o1), tt(o2)
            k = next((i for i, (x, y) in enumerate(zip(a, b)) if x != y), min(len(a), len(b)))
            res.update(first_diff=k, tok1=a[max(0, k - 2):k + 3], tok2=b[max(0, k - 2):k + 3], lexexc=[o1["exc"], o2["exc"]])
    return res


def program_level(R, tier):
    import driverprops
    from common import seed as verif_seed
    sd = verif_seed()
    recs = []
    for kind in ("c", "h"):
        for wv in (False, True):
            try:
                stats, exports, was_cached = prog_corpus(tier, kind, wv)
            except Exception as e:  # noqa
                R.machinery(f"TLC RespellProg: {e}")
                return
            R.add_tlc(f"RespellProg/{kind}/{'violating' if wv else 'conforming'}", stats, cached=was_cached)
            bad = [s for s in stats if not s.ok]
            if bad:
                b = bad[0]
                if b.violated:
                    R.violation(dict(kind="tlc_invariant", module="RespellProg", invariant=b.violated, detail=(b.error or "")[:2000]))
                    continue
                R.machinery(f"TLC RespellProg: {b.error}")
                return
            recs += exports
    R.cov["exhaustive"] = False
    jobs = [dict(rec=rec, seed=sd * 23 + 1, idx=i, keep=(i % 499 == 0)) for i, rec in enumerate(recs)]
    for w in driverprops.pool_map_shared(_work_prog, jobs):
        rec = recs[w["idx"]]
        R.case(("prog", w["idx"], w["mode"]), nontrivial=w["differs"])
        if w["same_tokens"] and w["diag_ok"]:
            R.validated()
            if "text" in w and w["differs"] and len(R.cov["samples"]) < 5:
                la, lb = w["text"].split("\n"), w["text2"].split("\n")
                R.sample(dict(level="program", mode=w["mode"], differing_lines=[(x, y) for x, y in zip(la, lb) if x != y][:3]))
            continue
        if not w["same_tokens"]:
            R.violation(dict(kind="respell_program_tokens", mode=w["mode"], rs=rec["rs"], first_diff=w.get("first_diff"), plain=w.get("tok1"),
                             respelled=w.get("tok2"), exc=w.get("lexexc"), text=w["text"], text2=w["text2"]))
        else:
            R.violation(dict(kind="respell_program_diagnostics", mode=w["mode"], rs=rec["rs"], diags_plain=w.get("d1"), diags_respelled=w.get("d2"),
                             fatal=w.get("fatal"), exc=w.get("exc"), text=w["text"], text2=w["text2"]))


def replay(pid, path):
    import json
    rec = json.load(open(path))
    if "text" in rec:
        oa, ob = observe.lex(rec["text"]), observe.lex(rec["text2"])
        print("tokens equal:", tt(oa) == tt(ob), oa["exc"], ob["exc"])
        if oa["exc"] or ob["exc"] or tt(oa) != tt(ob):
            print(f"VIOLATION property={pid} replay={path}")
            return 1
        return 0
    oa, ob = observe.lex(rec["plain"]), observe.lex(rec["respelled"])
    print("plain    :", tt(oa), oa["exc"])
    print("respelled:", tt(ob), ob["exc"])
    if oa["exc"] or ob["exc"] or tt(oa) != tt(ob):
        print(f"VIOLATION property={pid} replay={path}")
        return 1
    return 0
