"""C14: include-guard validation follows the file name (DESIGN 4.14).

 1. TLC enumerates Guard.tla: every header base name over a small alphabet (letters, digits, '_', '.', with
    double dots and trailing underscores) x every guard mutation, computing Guard(name) in the specification
    (upper-case, '.' -> '_') and checking GuardWellFormed / MutationsDiffer; plus the same texts under a .c name.
 2. Direction A: each case is rendered under that file name and run: the HEADER_PROT_* diagnostic demanded by
    the mutation must be on the demanded directive, a correct guard must give none, a .c file must give none.
"""
import json

import cache
import tlc
import extract
import normgen
import observe
import lexmodel
import driverprops
from evidence import Run, known_keys
from common import seed as verif_seed


def cached(level):
    k = cache.key("guard", level)
    c = cache.get(k)
    if c is not None:
        return [lexmodel.Stat(s) for s in c["stats"]], c["exports"], True
    cfg = tlc.cfg_text(spec="GSpec", constants=normgen.consts(5, 25, 3, 1, False, "h", False) + [f"GLevel = {level}"],
                       invariants=["GuardWellFormed", "MutationsDiffer", "ExportInv"])
    r = tlc.run(name="guard", root="GuardMC", defs={}, cfg=cfg, workers=1, timeout=1800)
    stats = [dict(distinct=r.distinct, generated=r.generated, wall=r.wall, ok=r.ok, violated=r.violated, error=r.error,
                  stdout_path=r.stdout_path)]
    if r.ok:
        cache.put(k, dict(stats=stats, exports=r.exports))
    return [lexmodel.Stat(s) for s in stats], r.exports, False


def _work(job):
    rec, sd = job["rec"], job["seed"]
    name = "".join(rec["name"])
    _, text, lm = normgen.render(rec, sd, name=name)
    o = observe.run_file(text, name)
    prot = [(d[1], d[2]) for d in o["diags"] if d[1].startswith("HEADER_PROT")]
    kinds = [ln["k"] for ln in rec["prog"]]
    line = None
    if rec["code"] == "":
        ok = not prot
    elif rec["code"] == "HEADER_PROT_*":
        ok = bool(prot)
    elif rec["on"]:
        idxs = [i for i, k in enumerate(kinds) if k == rec["on"]]
        line = lm[idxs[rec["nth"] - 1]]
        ok = (rec["code"], line) in prot
    else:
        ok = any(p[0] == rec["code"] for p in prot)
    res = dict(idx=job["idx"], ok=ok, prot=prot, fatal=o["fatal"], exc=o["exc"], name=name, line=line)
    if not ok or job.get("keep"):
        res["text"] = text
    return res


def run(pid, tier):
    R = Run(pid, tier)
    extract.write()
    kk = known_keys(pid)
    sd = verif_seed()
    R.cov["rule"] = ("Guard.tla: header base names (all strings of length 1..2 / 1..3 over {a, z, 0, _, .} not starting with a dot or a "
                     "digit) x 15 guard cases (correct, 3 wrong symbols, 2 case variants, 2 missing defines, second guard, nested, 3 things "
                     "before the guard, declaration after, no guard) + the same under .c names (TLC, complete product); distinct = (name, case)")
    try:
        stats, exports, was_cached = cached(1 if tier == "quick" else 2)
    except Exception as e:  # noqa
        R.machinery(f"TLC Guard: {e}")
        return R.finish()
    R.add_tlc("Guard (complete product)", stats, cached=was_cached)
    bad = [s for s in stats if not s.ok]
    if bad:
        b = bad[0]
        if b.violated:
            R.violation(dict(kind="tlc_invariant", module="Guard", invariant=b.violated, detail=(b.error or "")[:3000]))
        else:
            R.machinery(f"TLC Guard: {b.error}")
        return R.finish()
    # all the cases of one file name run one after the other in ONE worker process (a chunk): guard state that leaks from one
    # header to the next of the same name (the shape of seed C14-b) is seen here too, not only by C06
    order = sorted(range(len(exports)), key=lambda i: ("".join(exports[i]["name"]), exports[i]["m"]))
    jobs = [dict(rec=exports[i], seed=sd * 17 + s, idx=i, keep=(i % 53 == 0 and s == 0)) for s in range(2) for i in order]
    per_name = max(1, len(exports) // max(1, len({"".join(e["name"]) for e in exports})))
    results = driverprops.pool_map(_work, jobs, chunksize=per_name)
    for w in results:
        rec = exports[w["idx"]]
        R.case(("".join(rec["name"]), rec["m"]))
        if w["exc"]:
            continue
        if w["ok"] and not w["fatal"]:
            R.validated()
            if "text" in w and len(R.cov["samples"]) < 4:
                R.sample(dict(file=w["name"], case=rec["m"], demanded=rec["code"], on=rec["on"], reported=w["prot"]))
            continue
        key = next((k for k, f in kk.items() if f.get("match", {}).get("m") == rec["m"] and rec["kind"] == "h"), None)
        if key and not w["fatal"]:
            R.known(key)
            continue
        R.violation(dict(kind="guard", file=w["name"], case=rec["m"], demanded=rec["code"], on=rec["on"], line=w["line"],
                         reported=w["prot"], fatal=w["fatal"], text=w.get("text")))
    R.assumptions += ["names starting with a digit are outside the domain (no C identifier can be their guard)"]
    return R.finish()


def replay(pid, path):
    rec = json.load(open(path))
    o = observe.run_file(rec["text"], rec["file"])
    prot = [(d[1], d[2]) for d in o["diags"] if d[1].startswith("HEADER_PROT")]
    print(rec["file"], rec["case"], "demanded", rec["demanded"], "on line", rec.get("line"), "reported", prot)
    if rec["demanded"] == "":
        bad = bool(prot)
    elif rec["demanded"] == "HEADER_PROT_*":
        bad = not prot
    else:
        bad = not any(p[0] == rec["demanded"] and (rec.get("line") is None or p[1] == rec["line"]) for p in prot)
    if bad:
        print(f"VIOLATION property={pid} replay={path}")
        return 1
    return 0
