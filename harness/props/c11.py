"""C11: C literals are classified as C defines them (DESIGN section 4.11).

 1. TLC enumerates Literals.tla: every literal of the valid families (C11 6.4.4 grammar, written from the
    standard) and of the malformed families M1..M13, each in its contexts, runs the tokenizer machine on it
    and evaluates the law ClassOK on the machine's behaviour.  A literal on which the machine (the
    transcription of the implementation) departs from the grammar is exported with ok = FALSE.
 2. Direction A: every exported behaviour is replayed into the real Lexer.  If the observed tokens and
    diagnostics equal the machine's, the verdict is TLC's ClassOK; otherwise the same law is evaluated on
    the observed behaviour.  A failed law is a VIOLATION unless the literal belongs to a listed finding.
"""
import re

import cache
import tlc
import extract
import observe
import lexmodel
from evidence import Run, known_keys

LIT_TYPES = {"CONSTANT", "CHAR_CONST", "STRING"}


def job(level, s, n):
    cfg = tlc.cfg_text(spec="LSpec",
                       constants=["Alpha <- cAlpha", "MaxLen = 0", "Dev <- cDev", f"Shard = {s}", f"NShards = {n}",
                                  f"Level = {level}"],
                       invariants=["TypeOK", "NoCrash", "ExportInv"])
    return dict(name=f"lit-{level}-{s}", root="LiteralsMC", defs={"cAlpha": '<<"a">>', "cDev": "{}"}, cfg=cfg,
                workers=1, timeout=3400)


def cached(level):
    k = cache.key("literals", level)
    c = cache.get(k)
    if c is not None:
        return [lexmodel.Stat(s) for s in c["stats"]], c["exports"], True
    rs = tlc.run_many([job(level, s, 16) for s in range(16)])
    exports = []
    for r in rs:
        exports.extend(r.exports)
        r.exports = []
    stats = [dict(distinct=r.distinct, generated=r.generated, wall=r.wall, ok=r.ok, violated=r.violated,
                  error=r.error, stdout_path=r.stdout_path) for r in rs]
    if all(r.ok for r in rs):
        cache.put(k, dict(stats=stats, exports=exports))
    return [lexmodel.Stat(s) for s in stats], exports, False


def law(expect, pre, lit, toks, diags):
    """ClassOK of Literals.tla on an observed behaviour.  toks: (type, text, line, col, end); diags: (code, lv, hl)"""
    start = len(pre) + 1
    end = start + len(lit)
    if expect == "valid":
        hit = any(t[0] in LIT_TYPES and t[1] == lit and t[4] == end and (t[2], t[3]) == (1, start) for t in toks)
        return hit and not diags
    for d in diags:
        if d[0] == expect and d[2] and d[2][0][0] == 1 and start <= d[2][0][1] < max(end, start + 1):
            return True
    return False


def finding_for(lit, fam, kk):
    for key, f in kk.items():
        m = f.get("match", {})
        if m.get("literal_regex") and re.search(m["literal_regex"], lit) and (not m.get("families") or fam in m["families"]):
            return key
    return None


def run(pid, tier):
    R = Run(pid, tier)
    extract.write()
    kk = known_keys(pid)
    level = 1      # both tiers: TLC needs more than half an hour to build the universe set of level 2 (see DESIGN 0.6)
    R.cov["rule"] = ("every literal of the valid and malformed families of Literals.tla at this level x its contexts "
                     "(TLC, exhaustive); each replayed into the real Lexer; distinct = distinct (pre, literal, post)")
    try:
        stats, exports, was_cached = cached(level)
    except Exception as e:  # noqa
        R.machinery(f"TLC literals: {e}")
        return R.finish()
    R.add_tlc(f"Literals/Level={level}", stats, cached=was_cached)
    bad = [s for s in stats if not s.ok]
    if bad:
        b = bad[0]
        if b.violated:
            R.violation(dict(kind="tlc_invariant", invariant=b.violated, detail=(b.error or "")[:4000]))
        else:
            R.machinery(f"TLC literals: {b.error}")
        return R.finish()
    fams = {}
    for rec in exports:
        pre, lit, post = "".join(rec["pre"]), "".join(rec["t"]), "".join(rec["post"])
        src = pre + lit + post
        mtoks = [(t["t"], "".join(t["x"]), t["e"]) for t in rec["toks"]]
        mdiags = sorted((d["code"], tuple(tuple(h) for h in d["hl"])) for d in rec["diags"])
        o = observe.lex(src)
        otoks = [(t[0], t[1], t[4]) for t in o["tokens"]]
        odiags = sorted((d[0], tuple(tuple(h) for h in d[2])) for d in o["diags"])
        R.case((pre, lit, post))
        fams[rec["fam"]] = fams.get(rec["fam"], 0) + 1
        same = o["exc"] is None and otoks == mtoks and odiags == mdiags
        if same:
            ok = rec["ok"]
        else:
            ok = o["exc"] is None and law(rec["expect"], pre, lit, [(t[0], t[1], t[2], t[3], t[4]) for t in o["tokens"]],
                                         [(d[0], d[1], d[2]) for d in o["diags"]])
            if ok and rec["ok"]:
                R.soft(f"literal {src!r}: law holds but tokens/diagnostics differ from Literals.tla's machine")
        if ok:
            R.validated()
            if rec["fam"] not in [s.get("family") for s in R.cov["samples"]]:
                R.sample(dict(family=rec["fam"], input=src, expect=rec["expect"], tokens=otoks, diagnostics=odiags), limit=20)
            continue
        key = finding_for(lit, rec["fam"], kk)
        if key:
            R.known(key)
            continue
        R.violation(dict(kind="literal_class", family=rec["fam"], literal=lit, pre=pre, post=post, expect=rec["expect"],
                         observed_tokens=otoks, observed_diags=odiags, exc=o["exc"],
                         machine_ok=rec["ok"], machine_tokens=mtoks, machine_diags=mdiags))
    R.cov["families"] = fams
    R.assumptions += ["valid/malformed families are written from C11 6.4.4 and DESIGN 4.11; multi-character constants, "
                      "\\e, UCNs and imaginary/decimal-float suffixes are outside both (don't care)"]
    return R.finish()


def replay(pid, path):
    import json
    rec = json.load(open(path))
    src = rec["pre"] + rec["literal"] + rec["post"]
    o = observe.lex(src)
    ok = o["exc"] is None and law(rec["expect"], rec["pre"], rec["literal"],
                                  [(t[0], t[1], t[2], t[3], t[4]) for t in o["tokens"]],
                                  [(d[0], d[1], d[2]) for d in o["diags"]])
    print(repr(src), "expect", rec["expect"], "->", [(t[0], t[1]) for t in o["tokens"]], [d[0] for d in o["diags"]], o["exc"])
    if not ok:
        print(f"VIOLATION property={pid} replay={path}")
        return 1
    return 0
