"""C05, whole pipeline (DESIGN 4.5): every edited program gets an answer.

 1. TLC enumerates Edits.tla exhaustively: every item-level edit (truncate after an item, delete, swap, insert /
    replace by each of 18 item kinds) at every site of every SELECTED derivation of the small-structure
    configuration (conforming and single-violation, .c and .h).  The universe is a function of the specification
    constants only -- the same under every seed -- so that the list of known crash sites can be complete for it.
 2. Direction A: each edited text is run through Lexer + Registry under a wall-clock budget.  Allowed outcomes (the
    only ones the engine model has): a verdict, or the controlled fatal error (CParsingError).  Anything else -- a
    timeout, any other exception type -- is a VIOLATION unless its site (exception type @ file:function) is listed.
"""
import json

import cache
import tlc
import extract
import normgen
import observe
import lexmodel
import driverprops
from evidence import Run, known_keys

CONFIGS = {
    # tier: list of (kind, withviol, maxbody, selmod)
    "quick": [("c", False, 3, 5), ("h", False, 4, 3)],
    "thorough": [("c", False, 3, 5), ("c", False, 3, 3), ("h", False, 4, 1)],
}


def cached(kind, wv, mb, selmod):
    k = cache.key("edits", kind, wv, mb, selmod)
    c = cache.get(k)
    if c is not None:
        return [lexmodel.Stat(s) for s in c["stats"]], c["exports"], True
    cfg = tlc.cfg_text(spec="ESpec", constants=normgen.consts(1, mb, 2, 0, False, kind, wv) + [f"SelMod = {selmod}", "SelRes = 0"],
                       invariants=["EditedWellFormed", "ExportInv"])
    r = tlc.run(name=f"edits-{kind}{int(wv)}-{mb}-{selmod}", root="EditsMC", defs={}, cfg=cfg, workers=8, timeout=3000, heap="8g")
    stats = [dict(distinct=r.distinct, generated=r.generated, wall=r.wall, ok=r.ok, violated=r.violated, error=r.error,
                  stdout_path=r.stdout_path)]
    if r.ok:
        cache.put(k, dict(stats=stats, exports=r.exports))
    return [lexmodel.Stat(s) for s in stats], r.exports, False


def _work(job):
    rec = job["rec"]
    name, text, lm = normgen.render(rec, 1)
    if rec["edit"]["op"] == "truncate":
        text = text.rstrip("\n")
    o = observe.run_file(text, name)          # runs under observe.watchdog: a hang comes back as exc "Hang@..."
    exc = o["exc"]
    outcome = "fatal" if o["fatal"] else ("verdict" if exc is None else ("timeout" if exc.startswith("Hang") else "exception"))
    res = dict(idx=job["idx"], outcome=outcome, exc=exc)
    if exc:
        res["text"] = text
        res["name"] = name
    return res


def run_into(R, tier):
    kk = known_keys("C05")
    sites = {f["match"]["site"]: k for k, f in kk.items() if f.get("match", {}).get("site")}
    seen = {}
    for (kind, wv, mb, selmod) in CONFIGS[tier]:
        try:
            stats, exports, was_cached = cached(kind, wv, mb, selmod)
        except Exception as e:  # noqa
            R.machinery(f"TLC Edits: {e}")
            return
        R.add_tlc(f"Edits/{kind}/{'violating' if wv else 'conforming'}/MaxBody={mb}/1-in-{selmod}", stats, cached=was_cached)
        bad = [s for s in stats if not s.ok]
        if bad:
            R.machinery(f"TLC Edits: {bad[0].violated or bad[0].error}")
            return
        jobs = [dict(rec=rec, idx=i) for i, rec in enumerate(exports)]
        for w in driverprops.pool_map_shared(_work, jobs):
            rec = exports[w["idx"]]
            R.case(("edit", kind, wv, w["idx"]))
            if w["outcome"] in ("verdict", "fatal"):
                R.validated()
                continue
            key = sites.get(w["exc"])
            if key:
                R.known(key)
                seen[w["exc"]] = seen.get(w["exc"], 0) + 1
                continue
            R.violation(dict(kind="pipeline_no_answer", outcome=w["outcome"], exception_site=w["exc"], edit=rec["edit"],
                             file=w["name"], text=w["text"]))
    R.cov["crash_sites_hit"] = seen
