"""C03: numeric limits are enforced exactly at their boundary (DESIGN 4.3).

 1. TLC enumerates Limits.tla completely: for each limit (80 columns, 25 lines, 5 functions, 4 parameters,
    5 variables) x each measure n in [L-3, L+6] x each context, one derivation; MeasureOK checks that the measure
    the specification computes (visual width with 4-column tab stops, counts) is the intended n.
 2. Direction A: each derivation is concretised (several spellings) and run: the limit diagnostic must be present
    on the expected line if and only if n > L.
"""
import json

import cache
import tlc
import extract
import normgen
import observe
import lexmodel
import driverprops
from evidence import Run, known_keys
from common import seed as verif_seed


def cached():
    k = cache.key("limits")
    c = cache.get(k)
    if c is not None:
        return [lexmodel.Stat(s) for s in c["stats"]], c["exports"], True
    cfg = tlc.cfg_text(spec="LSpec", constants=normgen.consts(5, 25, 3, 1, False, "c", False), invariants=["MeasureOK", "ExportInv"])
    r = tlc.run(name="limits", root="LimitsMC", defs={}, cfg=cfg, workers=1, timeout=1800)
    stats = [dict(distinct=r.distinct, generated=r.generated, wall=r.wall, ok=r.ok, violated=r.violated, error=r.error,
                  stdout_path=r.stdout_path)]
    if r.ok:
        cache.put(k, dict(stats=stats, exports=r.exports))
    return [lexmodel.Stat(s) for s in stats], r.exports, False


def target_line(rec, lm):
    c = rec["case"]
    if rec["line"]:
        return lm[rec["line"] - 1]
    if c["lim"] != "width":
        return None
    idx = rec["prog"].index(rec["target"])
    if c["kind"] == "mc_interior":
        idx += 1
    elif c["kind"] == "mc_last":
        idx += 2
    return lm[idx]


def _work(job):
    rec, sd = job["rec"], job["seed"]
    # the spellings of one case differ in identifiers AND in the class of the text inside comments / strings (a width is
    # a width whatever the text: digraphs and trigraphs are written with 2 / 3 columns)
    from concretise import Speller
    name, text, lm = normgen.render(rec, sd, speller=Speller(sd, quoted_class=("letters", "digraphs", "trigraphs", "operators")[job.get("k", 0) % 4]))
    c = rec["case"]
    if c.get("pos") == "lastline_nonl":
        text = text.rstrip("\n")
    tl = target_line(rec, lm)
    o = observe.run_file(text, name)
    got = [(d[1], d[2], d[3]) for d in o["diags"] if d[1] == rec["code"]]
    present = any(g[1] == tl for g in got) if tl else bool(got)
    res = dict(idx=job["idx"], present=present, fatal=o["fatal"], exc=o["exc"], line=tl, got=got[:4], name=name)
    if present != rec["expect"] or o["exc"] or job.get("keep"):
        res["text"] = text
    return res


def run(pid, tier):
    R = Run(pid, tier)
    extract.write()
    kk = known_keys(pid)
    sd = verif_seed()
    R.cov["rule"] = ("Limits.tla: limit x measure n in [L-3, L+6] x context (kind of line incl. first/interior/last line of a block "
                     "comment, comment after code, tab at every offset mod 4; position in file incl. last line without newline; nesting; "
                     "shape of the body; function index; prototypes/comments interleaved; pointer/array/const parameters); TLC enumerates "
                     "the product completely; each derivation run with several spellings; distinct = distinct cases")
    try:
        stats, exports, was_cached = cached()
    except Exception as e:  # noqa
        R.machinery(f"TLC Limits: {e}")
        return R.finish()
    R.add_tlc("Limits (complete product)", stats, cached=was_cached)
    bad = [s for s in stats if not s.ok]
    if bad:
        b = bad[0]
        if b.violated:
            R.violation(dict(kind="tlc_invariant", module="Limits", invariant=b.violated, detail=(b.error or "")[:3000]))
        else:
            R.machinery(f"TLC Limits: {b.error}")
        return R.finish()
    # the engine behind the 25-line limit: its design model-checked (line breaks are conserved through every nesting, the
    # Function scope holds exactly the lines of the body) and the implementation's scope chain / line counters of the
    # function-length cases validated against it event by event (EngineTrace.tla)
    import enginemc
    import enginetrace
    enginemc.run_into(R, tier)
    lines_cases = [rec for rec in exports if rec["case"]["lim"] == "lines"]
    traces = []
    for t, rec in enumerate(lines_cases[:: max(1, len(lines_cases) // (150 if tier == "quick" else 1500))], start=1):
        name, text, _ = normgen.render(rec, sd * 11)
        tr, _o = enginetrace.record(text, t, name)
        traces.append(tr)
    try:
        verdicts = enginetrace.validate(traces, name="enginetrace-C03")
        for t, v in sorted(verdicts.items()):
            R.case(("engine-trace", t))
            if v["part"] or v["wf"] or v["depth"]:
                R.soft(f"engine trace of a function-length case: partition / well-formedness / depth clause fails at event "
                       f"{v['part'] or v['wf'] or v['depth']} (C07's business)")
            elif v["scope"] or v["lines"]:
                R.soft(f"engine trace of a function-length case departs from Engine.tla at event {v['scope'] or v['lines']} "
                       "(scope chain / line counter; model drift unless a boundary case fails too)")
            else:
                R.validated()
        R.cov["engine_traces"] = len(traces)
    except Exception as e:  # noqa
        R.machinery(str(e))
    nseeds = 4 if tier == "quick" else 8
    jobs = [dict(rec=rec, seed=sd * 11 + s, k=s, idx=i, keep=(i % 97 == 0 and s == 0)) for i, rec in enumerate(exports) for s in range(nseeds)]
    results = driverprops.pool_map(_work, jobs)
    for w in results:
        rec = exports[w["idx"]]
        c = rec["case"]
        R.case(json.dumps(c, sort_keys=True))
        if w["exc"]:
            continue        # C05's business
        if w["present"] == rec["expect"] and not (w["fatal"]):
            R.validated()
            if "text" in w and c["lim"] == "width" and c["n"] in (80, 81) and len(R.cov["samples"]) < 4:
                R.sample(dict(case=c, expect_diagnostic=rec["expect"], code=rec["code"], line=w["line"],
                              the_line=w["text"].split("\n")[w["line"] - 1] if w["line"] else None))
            continue
        key = None
        for k, f in kk.items():
            m = f.get("match", {})
            if m.get("lim") == c["lim"] and all((rec["expect"] if x == "expect" else c.get(x)) in v for x, v in m.items() if x != "lim"):
                key = k
        if key:
            R.known(key)
            continue
        R.violation(dict(kind="limit_boundary", case=c, code=rec["code"], expected_present=rec["expect"], observed_present=w["present"],
                         expected_line=w["line"], reported=w["got"], fatal=w["fatal"], file=w["name"], text=w.get("text")))
    return R.finish()


def replay(pid, path):
    rec = json.load(open(path))
    o = observe.run_file(rec["text"], rec.get("file", "test.c"))
    got = [(d[1], d[2]) for d in o["diags"] if d[1] == rec["code"]]
    present = any(g[1] == rec["expected_line"] for g in got) if rec.get("expected_line") else bool(got)
    print(rec["case"], "expected present:", rec["expected_present"], "observed:", present, got)
    if present != rec["expected_present"]:
        print(f"VIOLATION property={pid} replay={path}")
        return 1
    return 0
