"""C06 (the verdict is a pure function of the file) and C08 (reports are well-formed, ordered, identical in
both formats).  DESIGN sections 4.6 and 4.8."""
import os
import sys
import json
import itertools
import subprocess

import tlc
import cache
import extract
import corpus
import cli
import lexmodel
import driverprops
from evidence import Run, known_keys
from common import rng, REPO, BUILD, PY

# =========================================================================== C06
C06_FILES = {
    "clean.c": lambda: corpus.clean_c("clean.c"),
    "clean.h": lambda: corpus.clean_h("clean.h"),
    "notice.c": lambda: corpus.notice_c("notice.c"),
    "err.c": lambda: corpus.err_c("err.c", "trailing_space"),
    "errdef.c": lambda: corpus.err_c("errdef.c", "define_expr"),
    "deep.c": lambda: corpus.deep_c("deep.c"),
    "fatal_dir.c": lambda: corpus.fatal_c("fatal_dir.c", "directive"),
    "fatal_if.c": lambda: corpus.fatal_c("fatal_if.c", "if_expr"),
    "fatal_par.c": lambda: corpus.fatal_c("fatal_par.c", "paren"),
    # same base name as clean.h, guard opened and closed but never defined (HEADER_PROT_NODEF): shows state carried
    # from an earlier header of that name
    "nodef@clean.h": lambda: corpus.clean_h("clean.h").replace("# define CLEAN_H\n", ""),
}
CLASS_OF = {"clean.c": "clean", "clean.h": "clean", "notice.c": "notice", "err.c": "err", "errdef.c": "err", "deep.c": "err",
            "fatal_dir.c": "fatal", "fatal_if.c": "fatalif", "fatal_par.c": "fatal", "nodef@clean.h": "err"}


def _work_hist(job):
    """one CLI run over a sequence of concrete files (json format): per-file findings"""
    d = cli.scratch(f"h{job['idx']}")
    try:
        names = []
        for j, n in enumerate(job["seq"]):
            # same content under a position-specific directory so that repeated files are distinct paths
            sub = os.path.join(d, f"p{j}")
            os.makedirs(sub)
            base = n.split("@")[-1]
            with open(os.path.join(sub, base), "w") as f:
                f.write(C06_FILES[n]())
            names.append(os.path.join(f"p{j}", base))
        res = cli.run_cli(["-f", "json"] + names, d)
        dec = cli.decode(res["stdout"], "json")
        # findings per POSITION of the sequence (two files may share a base name)
        import re
        per = {}
        for f in dec["files"]:
            m = re.search(r"/p(\d+)/", f["path"])
            if m:
                per.setdefault(int(m.group(1)), []).append(("verdict", f["status"], [tuple(x) for x in f["diags"]]))
        for m in re.finditer(r"^p(\d+)/[^\n]*: Error!\n\t", cli.ANSI.sub("", res["stdout"]), re.M):
            per.setdefault(int(m.group(1)), []).append(("fatal", "Error", []))
        return dict(idx=job["idx"], seq=job["seq"], res=dict(res, stdout=res["stdout"][-2000:]), dec=dec,
                    per={str(k): v for k, v in per.items()})
    finally:
        cli.cleanup(d)


def _work_library(job):
    """library usage: one Registry, files run one after the other in ONE process (forked child)"""
    import pickle
    r, w = os.pipe()
    pid = os.fork()
    if pid == 0:
        os.close(r)
        out = []
        try:
            import observe
            base_limit = sys.getrecursionlimit()
            for n in job["seq"]:
                o = observe.run_file(C06_FILES[n](), n.split("@")[-1])
                out.append(dict(name=n, status=o["status"], fatal=bool(o["fatal"]), exc=o["exc"],
                                diags=[tuple(x) for x in o["diags"]], reclimit=sys.getrecursionlimit() - base_limit))
        finally:
            with os.fdopen(w, "wb") as f:
                pickle.dump(out, f)
            os._exit(0)
    os.close(w)
    with os.fdopen(r, "rb") as f:
        data = f.read()
    os.waitpid(pid, 0)
    return dict(idx=job["idx"], seq=job["seq"], out=pickle.loads(data) if data else None)


_PROBES = []


def _work_probe(job):
    """one process (forked child, one Registry): an optional polluter file, then the probes job['idxs'] one after the other"""
    import pickle
    r, w = os.pipe()
    pid = os.fork()
    if pid == 0:
        os.close(r)
        out = {}
        try:
            import observe
            if job["polluter"]:
                observe.run_file(C06_FILES[job["polluter"]](), job["polluter"].split("@")[-1])
            for i in job["idxs"]:
                name, text = _PROBES[i]
                o = observe.run_file(text, name)
                out[i] = (o["status"], bool(o["fatal"]), o["exc"], [tuple(x) for x in o["diags"]])
        finally:
            with os.fdopen(w, "wb") as f:
                pickle.dump(out, f)
            os._exit(0)
    os.close(w)
    with os.fdopen(r, "rb") as f:
        data = f.read()
    os.waitpid(pid, 0)
    return dict(polluter=job["polluter"], idxs=job["idxs"], out=pickle.loads(data) if data else None)


def probe_programs(tier):
    """probes: programs of the seed-0 corpora of Norm.tla / Viol.tla, a few per violation operator (comments in odd places,
    spacing, declarations ...) and conforming ones, .c and .h -- files whose findings are sensitive to many different helpers"""
    import normprops
    import normgen
    per = 3 if tier == "quick" else 12
    out = []
    for kind in ("c", "h"):
        stats, recs, _ = normprops.sim_corpus("quick", kind, withviol=True, n=3200 if kind == "c" else 320, sd=0)
        seen = {}
        for rec in recs:
            op = rec["viol"]["op"]
            if seen.get(op, 0) < per:
                seen[op] = seen.get(op, 0) + 1
                name, text, _lm = normgen.render(rec, 5)
                out.append((f"p{len(out)}." + kind, text))
        stats, recs, _ = normprops.sim_corpus("quick", kind, sd=0)
        for rec in recs[: (20 if tier == "quick" else 100)]:
            name, text, _lm = normgen.render(rec, 5)
            out.append((f"p{len(out)}." + kind, text))
    # hand-written shapes that sit at the look-ahead helpers (comments between a control statement and its body ...)
    from corpus import header42
    out.append(("w1.c", header42("w1.c") + "\nint\tf(char *s)\n{\n\tint\ti;\n\n\ti = 0;\n\twhile (s[i++])\n\t\t// nothing\n\t\t;\n\treturn (i);\n}\n"))
    out.append(("w2.c", header42("w2.c") + "\nint\tf(int a)\n{\n\tif (a) /* c */\n\t\treturn (1);\n\treturn (0); // d\n}\n"))
    return out


LISTDIR_SCRIPT = r'''
import os, sys, json, random
sys.path.insert(0, {repo!r})
mode = {mode!r}
_real = os.listdir
def patched(path="."):
    names = _real(path)
    if str(path).rstrip("/").endswith(os.path.join("norminette", "rules")):
        names = sorted(names)
        if mode == "reversed":
            names = names[::-1]
        elif mode.startswith("shuffle"):
            random.Random(mode).shuffle(names)
    return names
os.listdir = patched
sys.path.insert(0, {harness!r})
import observe
from norminette.registry import rules, Registry
reg = Registry()
out = dict(primaries=[r.__name__ for r in rules.primaries],
           deps={{k: [c.__name__ for c in v] for k, v in sorted(reg.dependencies.items())}},
           files={{}})
import corpus, sessionprops
for n, mk in sessionprops.C06_FILES.items():
    o = observe.run_file(mk(), n)
    out["files"][n] = [o["status"], bool(o["fatal"]), o["exc"], [list(x) for x in o["diags"]]]
print(json.dumps(out))
'''


def listing_run(mode):
    code = LISTDIR_SCRIPT.format(repo=REPO, mode=mode, harness=os.path.dirname(os.path.abspath(driverprops.__file__)) + "/..")
    env = dict(os.environ, PYTHONPATH=os.pathsep.join([REPO, os.path.join(os.path.dirname(__file__), ".."), os.path.dirname(__file__)]),
               NORMINETTE_REPO=REPO)
    p = subprocess.run([PY, "-c", code], capture_output=True, text=True, env=env, timeout=300)
    if p.returncode != 0:
        raise RuntimeError(f"listing run {mode} failed: {p.stderr[-800:]}")
    return json.loads(p.stdout.strip().split("\n")[-1])


def run_c06(pid, tier):
    R = Run(pid, tier)
    extract.write()
    maxlen = 2 if tier == "quick" else 3
    R.cov["rule"] = (f"model: all class histories up to length {3 if tier == 'quick' else 4} (Driver.tla, SharedStateRestored/PureVerdict); "
                     f"replay: all sequences of length 1..{maxlen} over 9 concrete files (clean .c/.h, notice, three erroneous incl. a "
                     "95-deep nesting, three fatally unparsable incl. one inside #if) run as ONE command line and as a library session "
                     "with ONE Registry; every file's findings compared with its solo findings; plus permutations of the rules "
                     "directory listing; distinct = distinct sequences")
    exports = driverprops.tlc_family(R, "history", 3 if tier == "quick" else 4, 0)
    if exports is None:
        return R.finish()
    # rule order: priorities / names distinct (TLC, over the extracted tables)
    cfg = tlc.cfg_text(constants=[], invariants=["Trivial"])
    r = tlc.run(name="ruleorder", root="RuleOrder", defs={}, cfg=cfg, workers=1)
    R.add_tlc("RuleOrder (extracted priority/name tables)", r)
    if not r.ok:
        R.violation(dict(kind="tlc_assume", module="RuleOrder", detail=(r.error or "")[:2000],
                         note="primary priorities or check names are not pairwise distinct: rule order depends on the directory listing"))
    names = list(C06_FILES)
    seqs = [list(s) for n in range(1, maxlen + 1) for s in itertools.product(names, repeat=n)]
    solo = {}
    jobs = [dict(idx=i, seq=s) for i, s in enumerate(seqs)]
    results = driverprops.pool_map(_work_hist, jobs)
    for w in results:
        if len(w["seq"]) == 1:
            solo[w["seq"][0]] = w
    def findings(w, pos):
        name = w["seq"][pos]
        recs = [x for x in w["dec"]["records"] if x[1] == name]
        fl = [f for f in w["dec"]["files"] if f["name"] == name]
        return recs, fl
    for w in results:
        R.case(tuple(w["seq"]))
        bad = None
        if w["res"]["exc"]:
            bad = f"internal exception {w['res']['exc']}"
        else:
            # position by position: exactly the findings of the solo run of that file
            for j, name in enumerate(w["seq"]):
                got = w["per"].get(str(j), [])
                want = solo[name]["per"].get("0", [])
                if json.dumps(got, sort_keys=True) != json.dumps(want, sort_keys=True):
                    bad = f"position {j} ({name}): {got[:2]} differs from its solo run {want[:2]}"
                    break
        if bad:
            R.violation(dict(kind="history_cli", sequence=w["seq"], problem=bad, stdout_tail=w["res"]["stdout"][-1200:],
                             solo={n: solo[n]["dec"]["records"] for n in set(w["seq"]) if n in solo}))
        else:
            R.validated()
            if len(w["seq"]) >= 2 and w["seq"][0] == "fatal_if.c" and w["seq"][-1] == "deep.c":
                R.sample(dict(sequence=w["seq"], records=w["dec"]["records"]))
    # library sessions
    lib = driverprops.pool_map(_work_library, jobs)
    lsolo = {w["seq"][0]: w["out"][0] for w in lib if len(w["seq"]) == 1 and w["out"]}
    for w in lib:
        R.case(("lib",) + tuple(w["seq"]))
        if not w["out"] or len(w["out"]) != len(w["seq"]):
            R.violation(dict(kind="history_library", sequence=w["seq"], problem="session died"))
            continue
        bad = None
        for o in w["out"]:
            s = lsolo[o["name"]]
            if (o["status"], o["fatal"], o["exc"], o["diags"]) != (s["status"], s["fatal"], s["exc"], s["diags"]):
                bad = f"{o['name']}: findings differ from its solo run: {o['status'], o['fatal'], o['exc']} vs {s['status'], s['fatal'], s['exc']}"
                break
        if bad:
            R.violation(dict(kind="history_library", sequence=w["seq"], problem=bad))
        else:
            R.validated()
            if any(o["reclimit"] != 0 for o in w["out"]):
                R.soft(f"library session {w['seq']}: process recursion limit changed by {[o['reclimit'] for o in w['out']]}")
    # probes: a file's findings after ANY other file of the session are its solo findings, for files that exercise many helpers
    global _PROBES
    _PROBES = probe_programs(tier)
    idxs = list(range(len(_PROBES)))
    pjobs = [dict(polluter=None, idxs=[i]) for i in idxs] + [dict(polluter=n, idxs=idxs) for n in C06_FILES] \
        + [dict(polluter=None, idxs=idxs), dict(polluter=None, idxs=idxs[::-1])]
    pres = driverprops.pool_map(_work_probe, pjobs)
    psolo = {}
    for w in pres:
        if w["polluter"] is None and len(w["idxs"]) == 1 and w["out"]:
            psolo.update(w["out"])
    for w in pres:
        if len(w["idxs"]) == 1:
            continue
        R.case(("probe-session", w["polluter"], w["idxs"][0]))
        if not w["out"]:
            R.violation(dict(kind="history_probe", after=w["polluter"], problem="session died"))
            continue
        diff = [i for i in w["idxs"] if i in psolo and w["out"].get(i) != psolo[i]]
        if diff:
            i = diff[0]
            R.violation(dict(kind="history_probe", after=w["polluter"] or ("the probes before it" if w["idxs"][0] == 0 else "the probes before it (reverse order)"),
                             problem=f"{len(diff)} probe file(s) get other findings than alone; first: {_PROBES[i][0]}",
                             solo=[list(map(str, x)) for x in psolo[i][3]][:12], in_session=[list(map(str, x)) for x in w["out"][i][3]][:12],
                             file=_PROBES[i][0], text=_PROBES[i][1]))
        else:
            R.validated(len(w["idxs"]))
    R.cov["probe_files"] = len(_PROBES)
    # listing order
    modes = ["sorted", "reversed"] + [f"shuffle{j}-{R.cov.get('seed', 0)}" for j in range(6 if tier == "quick" else 40)]
    try:
        runs = {m: listing_run(m) for m in modes}
    except Exception as e:  # noqa
        R.machinery(str(e))
        return R.finish()
    ref = runs["sorted"]
    for m, o in runs.items():
        R.case(("listing", m))
        if o["files"] != ref["files"]:
            diff = [n for n in ref["files"] if o["files"].get(n) != ref["files"][n]]
            R.violation(dict(kind="listing_order", mode=m, problem="diagnostics depend on the order of the rules directory listing",
                             files=diff, primaries=o["primaries"], primaries_sorted=ref["primaries"]))
        else:
            R.validated()
            if o["primaries"] != ref["primaries"] or o["deps"] != ref["deps"]:
                R.soft(f"listing {m}: rule order differs from the sorted listing although diagnostics agree")
    R.assumptions += ["solo findings are those of a one-file command line in a fresh process"]
    return R.finish()


# =========================================================================== C08
def stress_files():
    base = corpus.clean_c("s.c")
    out = {
        "multi.c": base.replace("\tres = a + b;\n", "\tres=a+b ;  \n").replace("\treturn (res);\n", "\treturn res ;\n"),
        "lex2.c": base.replace("\tres = a + b;\n", "\tres = 0b123 + 'ab' + 1.2.3;\n"),
        "eofstr.c": base + '"\\q',
        "eolchr.c": base.replace("\tres = a + b;\n", "\tres = 'a\n\tres = a + b;\n"),
        "utf8.c": base.replace("\tres = a + b;\n", "\tres = a + b; // café ü\n").replace("ft_add(1, 2);", 'ft_add(1, 2); /* é */'),
        "utf8bad.c": base.replace("\tres = a + b;\n", "\tres = a + éb;\n"),
        "manyline.c": base.replace("\tres = a + b;\n", "\tres = a+b;\n\tres = a+b ;\n\tres  = a +b;\n"),
        "hdr.h": corpus.clean_h("hdr.h").replace("# define FT_MAX 42", "#define FT_MAX 42 "),
        "emptyeof.c": base + "\n\n",
        "binint.c": base.replace("\tres = a + b;\n", "\tres = 0b12 + 0b1021;\n"),
    }
    return out


def _work_fmt(job):
    d = cli.scratch(f"f{job['idx']}")
    try:
        names = []
        for n, txt in job["files"]:
            with open(os.path.join(d, n), "w") as f:
                f.write(txt)
            names.append(n)
        rh = cli.run_cli(["--no-colors"] + names, d)
        rc = cli.run_cli(names, d)
        rj = cli.run_cli(["-f", "json"] + names, d)
        return dict(idx=job["idx"], names=names, nlines={n: txt.count("\n") + (0 if txt.endswith("\n") or not txt else 1) for n, txt in job["files"]},
                    human=cli.decode(rh["stdout"]), colored=cli.decode(rc["stdout"]), js=cli.decode(rj["stdout"], "json"),
                    res=[dict(r, stdout=r["stdout"][-1500:]) for r in (rh, rc, rj)])
    finally:
        cli.cleanup(d)


def comparator_domain(maxline, maxcol, maxhl):
    hls = [(l, c, h) for l in range(1, maxline + 1) for c in range(1, maxcol + 1) for h in (0, 1)]
    lists = [list(x) for n in range(1, maxhl + 1) for x in itertools.product(hls, repeat=n)]
    return [(code, hl) for code in ("A", "B") for hl in lists]


def spec_lt(a, b):
    """ImplLt of Report.tla with KeyFirst = TRUE"""
    ah, bh = a[1][0], b[1][0]
    if ah[1] == bh[1] and ah[0] == bh[0]:
        return a[0] < b[0]
    return (ah[0], ah[1]) < (bh[0], bh[1])


def run_c08(pid, tier):
    R = Run(pid, tier)
    extract.write()
    from norminette.errors import Error, Highlight
    from norminette.norm_error import errors as catalogue
    kk = known_keys(pid)
    R.cov["rule"] = ("comparator: all pairs/triples of diagnostics over lines 1..2 x cols 1..3 x 2 codes x highlight lists of length "
                     "1..2 (TLC: strict order laws + ascending displayed position; Python comparator compared point-wise with the "
                     "transcription); reports: corpus and stress files (several diagnostics per line, multi-highlight lexical "
                     "diagnostics, non-ASCII bytes) through the CLI in humanized, coloured and json format, alone and in multi-file runs")
    ml, mc, mh = (2, 3, 2)
    k = cache.key("report", ml, mc, mh)
    c = cache.get(k)
    if c is None:
        cfg = tlc.cfg_text(constants=[f"MaxLine = {ml}", f"MaxCol = {mc}", f"MaxHl = {mh}", "Codes <- cCodes", "KeyFirst = TRUE",
                                      "CodeRank <- cRank"],
                           invariants=["Irreflexive", "Asymmetric", "Transitive", "Total", "SortedAscending"])
        r = tlc.run(name="report", root="Report", defs={"cCodes": '{"A","B"}', "cRank": '("A" :> 1) @@ ("B" :> 2)'}, cfg=cfg, workers=8)
        c = dict(ok=r.ok, violated=r.violated, error=r.error, distinct=max(r.distinct, 1), generated=max(r.generated, 1), wall=r.wall)
        if r.ok:
            cache.put(k, c)
        was_cached = False
    else:
        was_cached = True
    dom = comparator_domain(ml, mc, mh)
    st = lexmodel.Stat(dict(c, stdout_path=None))
    # the comparator model has one dummy state; what TLC evaluated is the law over |Diags|^2 pairs and ^3 triples
    R.add_tlc(f"Report (comparator laws over {len(dom)} diagnostics)", st, cached=was_cached)
    R.cov["comparator_pairs"] = len(dom) ** 2
    if not c["ok"]:
        R.violation(dict(kind="tlc_invariant", module="Report", invariant=c["violated"], detail=(c["error"] or "")[:2000]))
    # point-wise conformance of the Python comparator with the transcription
    def mk(d):
        return Error(d[0], "t", highlights=[Highlight(l, cc, 1, "h" * h or None) for (l, cc, h) in d[1]])
    objs = [mk(d) for d in dom]
    mism = []
    for i, a in enumerate(dom):
        for j, b in enumerate(dom):
            if (objs[i] < objs[j]) != spec_lt(a, b):
                mism.append((a, b))
                if len(mism) > 3:
                    break
        if len(mism) > 3:
            break
    R.case(("comparator", len(dom)))
    if mism:
        # the comparator changed: decide the laws on the Python comparator itself
        lt = lambda i, j: objs[i] < objs[j]  # noqa
        n = len(dom)
        bad = None
        for i in range(n):
            if lt(i, i):
                bad = ("irreflexive", dom[i])
                break
            for j in range(n):
                if lt(i, j):
                    if lt(j, i):
                        bad = ("asymmetric", dom[i], dom[j])
                    if dom[i][1][0][:2] > dom[j][1][0][:2]:
                        bad = ("ascending displayed position", dom[i], dom[j])
                elif not lt(j, i) and i != j and (dom[i][1][0][:2] != dom[j][1][0][:2]):
                    bad = ("total", dom[i], dom[j])
                if bad:
                    break
            if bad:
                break
        if bad:
            R.violation(dict(kind="comparator_law", law=bad[0], witnesses=bad[1:], note="Error.__lt__ / Highlight.__lt__"))
        else:
            R.soft(f"Error.__lt__ differs from Report.tla's ImplLt (e.g. {mism[0]}) but satisfies the order laws")
    else:
        R.validated()
    # reports
    files = {n: mk2() for n, mk2 in C06_FILES.items() if not n.startswith("fatal")}
    files.update(stress_files())
    for kx in corpus.ERR_VARIANTS:
        files[f"e_{kx}.c"] = corpus.err_c(f"e_{kx}.c", kx)
    jobs = [dict(idx=i, files=[(n, t)]) for i, (n, t) in enumerate(sorted(files.items()))]
    rr = rng("c08")
    allnames = sorted(files)
    for j in range(10 if tier == "quick" else 60):
        pick = rr.sample(allnames, rr.randint(2, 5))
        jobs.append(dict(idx=len(jobs), files=[(n, files[n]) for n in pick] + [("fatal_dir.c", corpus.fatal_c("fatal_dir.c", "directive"))] * (j % 3 == 0)))
    results = driverprops.pool_map(_work_fmt, jobs)
    for w in results:
        R.case(tuple(w["names"]))
        probs = []
        for r in w["res"]:
            if r["exc"]:
                probs.append(f"internal exception {r['exc']}")
        hu, co, js = w["human"], w["colored"], w["js"]
        if js["json_ok"] is not True:
            probs.append("JSON output is not valid JSON")
        view = lambda d: [(f["name"], f["status"], [tuple(x) for x in f["diags"]]) for f in d["files"]]  # noqa
        if view(hu) != view(js):
            probs.append("JSON and humanized outputs describe different files/verdicts/diagnostics/order")
        if view(hu) != view(co):
            probs.append("coloured and plain humanized outputs differ")
        if sorted(hu["records"]) != sorted(js["records"]):
            probs.append("records differ between formats")
        for f in hu["files"]:
            last = (0, 0)
            for (lv, code, line, col, text) in f["diags"]:
                if code not in catalogue:
                    if code == "BAD_LEXEME" and "bad_lexeme_not_in_catalogue" in kk:
                        R.known("bad_lexeme_not_in_catalogue")
                    else:
                        probs.append(f"{f['name']}: code {code} not in the catalogue")
                elif code in catalogue and text != catalogue[code]:
                    probs.append(f"{f['name']}: text of {code} is not the catalogue text")
                if lv not in ("Error", "Notice"):
                    probs.append(f"{f['name']}: level {lv}")
                nl = w["nlines"].get(f["name"], 10 ** 9)
                if not (1 <= line <= max(nl, 1)) or col < 1:
                    probs.append(f"{f['name']}: {code} at ({line},{col}) is outside the file ({nl} lines)")
                if (line, col) < last:
                    probs.append(f"{f['name']}: {code} at ({line},{col}) listed after {last}")
                last = (line, col)
            if f["status"] != ("Error" if any(d[0] == "Error" for d in f["diags"]) else "OK"):
                probs.append(f"{f['name']}: status {f['status']} does not match its diagnostics")
        if hu["junk"] or js["junk"]:
            probs.append(f"undecodable output lines: {(hu['junk'] + js['junk'])[:3]}")
        if probs:
            R.violation(dict(kind="report", files=w["names"], problems=probs[:8], human=view(hu)[:3], json=view(js)[:3]))
        else:
            R.validated()
            if w["names"] and w["names"][0] in ("lex2.c", "eofstr.c", "multi.c"):
                R.sample(dict(files=w["names"], report=view(hu)))
    return R.finish()


def run(pid, tier):
    return {"C06": run_c06, "C08": run_c08}[pid](pid, tier)


def replay(pid, path):
    """re-run the recorded history / probe session against the current tree"""
    global _PROBES
    rec = json.load(open(path))
    print(json.dumps({k: v for k, v in rec.items() if k not in ("text", "stdout_tail")}, indent=1, default=str)[:2500])
    kind = rec.get("kind")
    if kind == "history_probe" and rec.get("text"):
        _PROBES = [(rec["file"], rec["text"])]
        solo = _work_probe(dict(polluter=None, idxs=[0]))["out"]
        pol = [n for n in C06_FILES if n == rec.get("after")] or list(C06_FILES)
        bad = []
        for n in pol:
            out = _work_probe(dict(polluter=n, idxs=[0]))["out"]
            if not out or not solo or out[0] != solo[0]:
                bad.append(n)
        print("the probe alone:", (solo or {}).get(0, "session died"), "\ndiffers after:", bad)
        if bad:
            print(f"VIOLATION property={pid} replay={path}")
            return 1
        return 0
    if kind in ("history_cli", "history_library") and rec.get("sequence"):
        seq = rec["sequence"]
        if kind == "history_cli":
            w = _work_hist(dict(idx=0, seq=seq))
            solos = {n: _work_hist(dict(idx=0, seq=[n])) for n in set(seq)}
            bad = [j for j, n in enumerate(seq)
                   if json.dumps(w["per"].get(str(j), []), sort_keys=True) != json.dumps(solos[n]["per"].get("0", []), sort_keys=True)]
        else:
            w = _work_library(dict(idx=0, seq=seq))
            solos = {n: _work_library(dict(idx=0, seq=[n]))["out"][0] for n in set(seq)}
            bad = [j for j, o in enumerate(w["out"] or [])
                   if (o["status"], o["fatal"], o["exc"], o["diags"]) != (solos[o["name"]]["status"], solos[o["name"]]["fatal"], solos[o["name"]]["exc"], solos[o["name"]]["diags"])]
            if not w["out"] or len(w["out"]) != len(seq):
                bad = ["session died"]
        print("positions whose findings differ from the solo run:", bad)
        if bad:
            print(f"VIOLATION property={pid} replay={path}")
            return 1
        return 0
    print("(this record kind is re-evaluated by `./check %s`)" % pid)
    return 2
