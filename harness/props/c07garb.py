"""C07, second half (DESIGN 4.7): an unrecognisable fragment inserted at a statement boundary is never dropped while
the file is still reported OK.

 1. TLC enumerates Garbage.tla exhaustively: every boundary (top level, inside a body at every depth, inside a type
    block, end of file with / without final newline) x 12 fragments of every selected small derivation.  The
    universe does not depend on the seed.
 2. Direction A: each text is run.  Allowed: the fatal "Unrecognized line" (or another controlled fatal error), or a
    verdict Error with a diagnostic on the fragment's line.  A verdict OK is a VIOLATION unless the site class
    (fragment, where, next line kind, previous line kind, final newline) is listed in the charted finding.
"""
import json

import cache
import tlc
import normgen
import observe
import lexmodel
import driverprops
from evidence import known_keys

CONFIGS = {"quick": [("c", 3, 3), ("h", 4, 2)], "thorough": [("c", 3, 3), ("c", 3, 5), ("h", 4, 1)]}


def cached(kind, mb, mod):
    k = cache.key("garbage", kind, mb, mod)
    c = cache.get(k)
    if c is not None:
        return [lexmodel.Stat(s) for s in c["stats"]], c["exports"], True
    cfg = tlc.cfg_text(spec="GarbSpec", constants=normgen.consts(1, mb, 2, 0, False, kind, False) + [f"GSelMod = {mod}", "GSelRes = 0"],
                       invariants=["GarbWellFormed", "ExportInv"])
    r = tlc.run(name=f"garb-{kind}-{mb}-{mod}", root="GarbageMC", defs={}, cfg=cfg, workers=8, timeout=3000, heap="8g")
    stats = [dict(distinct=r.distinct, generated=r.generated, wall=r.wall, ok=r.ok, violated=r.violated, error=r.error,
                  stdout_path=r.stdout_path)]
    if r.ok:
        cache.put(k, dict(stats=stats, exports=r.exports))
    return [lexmodel.Stat(s) for s in stats], r.exports, False


def _work(job):
    rec = job["rec"]
    name, text, lm = normgen.render(rec, 1)
    g = rec["garb"]
    if g["nonl"]:
        text = text.rstrip("\n")
    line = lm[g["at"] - 1]
    o = observe.run_file(text, name)
    if o["exc"]:
        oc = "exception"
    elif o["fatal"]:
        oc = "fatal"
    elif o["status"] == "OK":
        oc = "silent_ok"
    elif any(d[2] == line for d in o["diags"] if d[0] == "Error"):
        oc = "error_on_line"
    else:
        oc = "error_elsewhere"
    res = dict(idx=job["idx"], outcome=oc, line=line, name=name)
    if oc in ("silent_ok", "error_elsewhere"):
        res["text"] = text
    return res


def run_into(R, tier):
    kk = known_keys("C07")
    table = None
    tkey = None
    for k, f in kk.items():
        if "table" in f.get("match", {}):
            table, tkey = [tuple(x) for x in f["match"]["table"]], k
    for (kind, mb, mod) in CONFIGS[tier]:
        try:
            stats, exports, was_cached = cached(kind, mb, mod)
        except Exception as e:  # noqa
            R.machinery(f"TLC Garbage: {e}")
            return
        R.add_tlc(f"Garbage/{kind}/MaxBody={mb}/1-in-{mod}", stats, cached=was_cached)
        bad = [s for s in stats if not s.ok]
        if bad:
            R.machinery(f"TLC Garbage: {bad[0].violated or bad[0].error}")
            return
        for w in driverprops.pool_map_shared(_work, [dict(rec=rec, idx=i) for i, rec in enumerate(exports)]):
            g = exports[w["idx"]]["garb"]
            R.case(("garbage", kind, w["idx"]))
            if w["outcome"] in ("fatal", "error_on_line"):
                R.validated()
                continue
            if w["outcome"] == "exception":
                continue         # C05
            cls = (g["frag"], g["where"], g["next"], g["prev"], g["nonl"])
            if w["outcome"] == "silent_ok" and table is not None and cls in table:
                R.known(tkey)
                continue
            if w["outcome"] == "error_elsewhere":
                R.validated()    # the file is not OK: the text was not dropped silently
                continue
            R.violation(dict(kind="garbage_dropped", fragment=g["frag"], site=dict(where=g["where"], next=g["next"], prev=g["prev"], nonl=g["nonl"]),
                             line=w["line"], file=w["name"], text=w["text"]))
