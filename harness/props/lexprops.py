"""C05 (tokenizer totality), C09 (true positions), C10 (lossless tokenization).

Decision procedure per property X (DESIGN section 4.5 / 4.9 / 4.10):
 1. TLC checks the intent model (Lexer.tla, Dev = {}) exhaustively over each configured alphabet:
    Total, NoCrash, Progress (C05), PosInv (C09), TileInv/SpellInv/BadLexInv (C10).  The dictionaries are
    extracted from the working tree, so a table change is seen by TLC itself.
 2. Direction A: every behaviour TLC exported is replayed into the real Lexer; equal => holds
    (the prediction is certified by step 1).
 3. Direction B: every differing execution is recorded as a trace and validated by TLC against
    LexerTrace.tla, which evaluates the laws of X on the observed tokens.  A law failure explained by a
    listed known deviation (machine with Dev = known reproduces the trace, deviation site met) is a
    KNOWN-FINDING; any other law failure is a VIOLATION; law holds but tokens differ => spec drift (soft).
"""
import glob
import os

import lexmodel
import lextrace
import driverprops
import observe
import extract
from evidence import Run, known_keys
from common import REPO, rng

LAW = {"C05": "c05", "C09": "c09", "C10": "c10"}


def _replay_chunk(exports):
    out = []
    for rec in exports:
        text, toks, diags, mode = lexmodel.norm_export(rec)
        o = observe.lex(text)
        otoks, odiags, oexc = lexmodel.norm_observed(o)
        ok = oexc is None and otoks == toks and odiags == diags
        out.append((text, toks, diags, ok, None if ok else o))
    return out


def long_runs():
    """deterministic family TLC cannot enumerate: very long runs of unmatched characters (the model's
    argument for them is Progress, which does not depend on the length)"""
    out = []
    for ch in ["@", "$", "`", "\\", "\x7f", "\r", "é"]:
        for k in (10, 100, 1000, 20000):
            out.append(ch * k)
            out.append("int a;" + ch * k + "b\n")
    out.append("??/" * 3000)
    out.append("\\\n" * 3000 + "a")
    out.append('"' + "a" * 5000)
    out.append("'" + "a" * 50)
    out.append("/*" + "\\\n" * 50 + "*/ x")
    out.append("0x" + "f" * 5000 + "e+1")
    out.append("1" * 5000 + "." + "e" * 50)
    out.append("a" * 20000)
    out.append("(" * 5000)
    return out


KNOWN_LONG = [
    # (input, key): inputs that reach the listed finding
    ("'" + "a" * 200 + "\n", "maybe_infinite_loop_char"),
    ("x = '" + "b" * 100 + "';\n", "maybe_infinite_loop_char"),
    ("/*" + "\\\n" * 120 + "*/ x", "maybe_infinite_loop_pop"),
    ('"' + "\\\n" * 101 + '"', "maybe_infinite_loop_pop"),
]


def run(pid, tier):
    R = Run(pid, tier)
    law = LAW[pid]
    extract.write()
    kk = known_keys()
    dev = set(k for k in kk if k in lexmodel_devnames())
    R.cov["rule"] = ("all strings of length 0..MaxLen over each focused alphabet (TLC, exhaustive), each replayed into "
                     "the real Lexer; non-trivial = a string on which the model produces at least one token or "
                     "diagnostic; distinct = distinct strings")
    mism = []
    tid = 0
    for cfgname, (alpha, qlen, tlen) in lexmodel.ALPHABETS.items():
        maxlen = qlen if tier == "quick" else tlen
        try:
            stats, exports, was_cached = lexmodel.cached_config(cfgname, maxlen)
        except Exception as e:  # noqa
            R.machinery(f"TLC run {cfgname}: {e}")
            return R.finish()
        R.add_tlc(f"Lexer/{cfgname}/MaxLen={maxlen}", stats, cached=was_cached)
        bad = [s for s in stats if not s.ok]
        if bad:
            b = bad[0]
            if b.violated:
                R.violation(dict(kind="tlc_invariant", config=cfgname, maxlen=maxlen, invariant=b.violated,
                                 detail=(b.error or "")[:4000],
                                 note="invariant of the intent model violated with the tables extracted from the tree"))
                continue
            R.machinery(f"TLC {cfgname}: {b.error}")
            return R.finish()
        chunks = [exports[i:i + 4000] for i in range(0, len(exports), 4000)]
        for part in driverprops.pool_map(_replay_chunk, chunks):
            for (text, toks, diags, ok, o) in part:
                R.case(text, nontrivial=bool(toks or diags))
                if ok:
                    R.validated()
                    if len(toks) >= 2:
                        R.sample(dict(input=text, predicted_tokens=toks[:6], observed_equal=True))
                    continue
                tid += 1
                mism.append((tid, text, cfgname, toks, diags, o))
    # the deterministic long-run family (C05 only) and its known-finding representatives
    extra = []
    if pid == "C05":
        for text in long_runs():
            o = observe.lex(text)
            R.case(("long", len(text), text[:8]))
            if o["exc"] == "NotRun":
                continue
            if o["exc"] is not None or len(o["tokens"]) > len(text):
                R.violation(dict(kind="tokenizer_exception", input_head=text[:60], input_len=len(text), exc=o["exc"],
                                 frame=o["excframe"]))
            else:
                R.validated()
        for text, key in KNOWN_LONG:
            o = observe.lex(text)
            R.case(("known-long", key, len(text)))
            if o["exc"] is None:
                R.validated()
                continue     # finding no longer reproduces (repaired): nothing to report
            mt = kk.get(key, {}).get("match", {})
            if key in kk and o["exc"] == mt.get("exc") and o["excframe"] == mt.get("frame"):
                R.known(key)
            else:
                R.violation(dict(kind="tokenizer_exception", input_head=text[:60], input_len=len(text), exc=o["exc"]))
    # real files: the repository's samples (direction B only)
    files = sorted(set(glob.glob(os.path.join(REPO, "tests/rules/samples/*.[ch]"))
                       + glob.glob(os.path.join(REPO, "tests/tokenizer/samples/ok/*.c"))))
    if tier == "quick":
        r = rng("lexfiles")
        files = [f for f in files if os.path.getsize(f) < 1500]
        files = sorted(r.sample(files, min(24, len(files))))
    traces = []
    meta = {}
    for (t, text, cfgname, toks, diags, o) in mism:
        traces.append(lextrace.record(text, t))
        meta[t] = ("model", text, cfgname, toks, diags, lexmodel.norm_observed(o)[1], lexmodel.norm_observed(o)[0] == toks)
    for f in files:
        try:
            text = open(f).read()
        except Exception:  # noqa
            continue
        tid += 1
        traces.append(lextrace.record(text, tid, os.path.basename(f)))
        meta[tid] = ("file", f)
        R.case(("file", f))
    try:
        verdicts = lextrace.validate(traces, dev, name=f"lextrace-{pid}")
    except Exception as e:  # noqa
        R.machinery(str(e))
        return R.finish()
    for t, v in sorted(verdicts.items()):
        m = meta[t]
        tr = next(x for x in traces if x["id"] == t)
        if v[law] == 0 and pid == "C09" and m[0] == "model" and m[6] and not (v["sites"] & set(kk)):
            # the tokens are the model's: the property also says that the position printed with a diagnostic points at the
            # offending character -- same diagnostics (code, level), different highlight positions = a position defect
            pd, od = m[4], m[5]
            if sorted((d[0], d[1]) for d in pd) == sorted((d[0], d[1]) for d in od) and sorted(pd) != sorted(od):
                R.violation(dict(kind="diagnostic_position", input=m[1], predicted=[list(map(str, d)) for d in pd],
                                 observed=[list(map(str, d)) for d in od],
                                 note="tokens and diagnostic codes equal the model's, a highlight position does not"))
                continue
        if v[law] == 0:
            R.validated()
            if v["mach"] != 0 or m[0] == "model":
                if m[0] == "model" and v["mach"] == 0 and (v["sites"] & set(kk)):
                    pass    # a known deviation owned by another law
                else:
                    R.soft(f"{m[0]} {m[1][:60]!r}: tokens differ from Lexer.tla at event {v['mach']} but the {pid} law holds")
            continue
        hit = [k for k in v["sites"] if k in kk]
        if v["mach"] == 0 and hit:
            for k in hit:
                R.known(k)
            continue
        R.violation(dict(kind="law_" + law, source=m[0], input=m[1] if m[0] == "model" else None, file=m[1] if m[0] == "file" else None,
                         failing_event=v[law], verdict={k: (sorted(x) if isinstance(x, set) else x) for k, x in v.items()},
                         observed_tokens=[(k["t"], "".join(k["x"]), k["l"], k["c"], k["e"]) for k in tr["toks"]][:40],
                         observed_bad=tr["bad"], exc=tr["exc"],
                         predicted_tokens=m[3][:40] if m[0] == "model" else None))
    if pid == "C05":
        import c05pipe
        c05pipe.run_into(R, tier)
        import c05tok
        c05tok.run_into(R, tier)
    R.assumptions += ["TLC's exhaustiveness is for the stated alphabets and lengths (DESIGN section 7)",
                      "the observation wrapper reads Lexer._Lexer__pos (name-mangled private attribute) for raw end offsets"]
    return R.finish()


def lexmodel_devnames():
    import re
    s = open(os.path.join(os.path.dirname(os.path.dirname(os.path.dirname(__file__))), "spec", "Lexer.tla")).read()
    m = re.search(r"DevNames == \{(.*?)\}", s, re.S)
    return set(re.findall(r'"([a-z0-9_]+)"', m.group(1)))


def replay(pid, path):
    import json
    rec = json.load(open(path))
    if rec.get("kind", "").startswith("pipeline_no_answer") and rec.get("text") is not None:
        o = observe.run_file(rec["text"], rec.get("file", "test.c"))
        print("outcome:", "fatal" if o["fatal"] else ("verdict " + str(o["status"]) if o["exc"] is None else o["exc"]))
        if o["exc"] is not None:
            print(f"VIOLATION property={pid} replay={path}")
            return 1
        return 0
    text = rec.get("input")
    if text is None and rec.get("file"):
        text = open(rec["file"]).read()
    if text is None:
        print("replay record has no input")
        return 2
    if rec.get("kind") == "diagnostic_position":
        od = lexmodel.norm_observed(observe.lex(text))[1]
        obs = sorted([list(map(str, d)) for d in od])
        print("predicted:", sorted(rec["predicted"]), "observed:", obs)
        if obs != sorted(rec["predicted"]):
            print(f"VIOLATION property={pid} replay={path}")
            return 1
        return 0
    tr = lextrace.record(text, 1)
    kk = known_keys()
    v = lextrace.validate([tr], set(k for k in kk if k in lexmodel_devnames()), name=f"replay-{pid}")[1]
    print("observed:", [(k["t"], "".join(k["x"]), k["l"], k["c"]) for k in tr["toks"]], "exc:", tr["exc"])
    print("verdict:", v)
    if v[LAW[pid]] != 0:
        print(f"VIOLATION property={pid} replay={path}")
        return 1
    return 0
