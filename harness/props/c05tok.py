"""C05, whole pipeline, token level: TokEdits.tla enumerates every token edit (truncate / delete / swap / insert /
replace) up to MaxTok positions; every applicable edit is applied to the token list of every selected program (derivations
of Norm.tla / Viol.tla from the seed-0 simulated corpora, rendered, split by the tool's own tokenizer) and the result is
run through the whole pipeline under a watchdog.  The universe does not depend on VERIF_SEED (a crash site that exists on
the unchanged tree must be seen -- and adjudicated -- under every seed or under none)."""
import random

import tlc
import cache
import lexmodel
import observe
import normgen
import driverprops
from evidence import known_keys

CONFIG = {
    "quick": dict(progs={("c", False): 4, ("c", True): 6, ("h", False): 2, ("h", True): 2}, maxtok=240, sub=7),
    "thorough": dict(progs={("c", False): 20, ("c", True): 30, ("h", False): 8, ("h", True): 8}, maxtok=300, sub=2),
}


def cached_edits(maxtok):
    k = cache.key("tokedits", maxtok)
    c = cache.get(k)
    if c is not None:
        return [lexmodel.Stat(s) for s in c["stats"]], c["exports"], True
    cfg = tlc.cfg_text(spec="TSpec", constants=[f"MaxTok = {maxtok}"], invariants=["ApplyOK", "ExportInv"])
    r = tlc.run(name=f"tokedits-{maxtok}", root="TokEdits", defs={}, cfg=cfg, workers=1, timeout=1200)
    stats = [dict(distinct=r.distinct, generated=r.generated, wall=r.wall, ok=r.ok, violated=r.violated, error=r.error,
                  stdout_path=r.stdout_path)]
    exports = sorted(r.exports, key=lambda e: (e["op"], e["pos"], e["kind"]))
    if r.ok:
        cache.put(k, dict(stats=stats, exports=exports))
    return [lexmodel.Stat(s) for s in stats], exports, False


def programs(tier):
    import normprops
    out = []
    r = random.Random(20260926)
    for (kind, wv), n in CONFIG[tier]["progs"].items():
        nn = (3200 if kind == "c" else 320) if wv else None
        stats, recs, _ = normprops.sim_corpus("quick", kind, withviol=wv, n=nn, sd=0)
        for rec in r.sample(recs, min(n, len(recs))):
            name, text, _ = normgen.render(rec, 9)
            out.append((name, text, f"{kind}/{'violating' if wv else 'conforming'}"))
    return out


def apply(toks, e):
    """mirror of TokEdits!Apply on a list of token texts"""
    p, op = e["pos"], e["op"]
    if op == "truncate":
        return toks[:p]
    if op == "delete":
        return toks[:p - 1] + toks[p:]
    if op == "swap":
        return toks[:p - 1] + [toks[p], toks[p - 1]] + toks[p + 1:]
    if op == "insert":
        return toks[:p] + [e["text"]] + toks[p:]
    if op == "replace":
        return toks[:p - 1] + [e["text"]] + toks[p:]
    raise ValueError(op)


def applicable(n, e):
    return e["pos"] < n if e["op"] == "swap" else e["pos"] <= n


_EDITS = None
_PROGS = None


def _work(job):
    pi, lo, hi, sub = job
    name, toks = _PROGS[pi]
    n = len(toks)
    ran = 0
    bad = []
    for ei in range(lo, hi):
        e = _EDITS[ei]
        if not applicable(n, e):
            continue
        if sub > 1 and e["op"] in ("insert", "replace") and (e["pos"] * 41 + e["kind"] + pi) % sub:
            continue
        text = "".join(apply(toks, e))
        o = observe.run_file(text, name)
        ran += 1
        if o["exc"] is not None:
            bad.append((ei, o["exc"], text))
    return pi, ran, bad


def run_into(R, tier):
    global _EDITS, _PROGS
    cfg = CONFIG[tier]
    kk = known_keys("C05")
    sites = {f["match"]["site"]: k for k, f in kk.items() if f.get("match", {}).get("site")}
    try:
        stats, edits, was_cached = cached_edits(cfg["maxtok"])
    except Exception as e:  # noqa
        R.machinery(f"TLC TokEdits: {e}")
        return
    R.add_tlc(f"TokEdits/MaxTok={cfg['maxtok']}", stats, cached=was_cached)
    if not stats[0].ok:
        if stats[0].violated:
            R.violation(dict(kind="tlc_invariant", module="TokEdits", invariant=stats[0].violated, detail=(stats[0].error or "")[:2000]))
        else:
            R.machinery(f"TLC TokEdits: {stats[0].error}")
        return
    progs = []
    for name, text, origin in programs(tier):
        o = observe.lex(text, name)
        if o["exc"] is not None:
            continue
        cuts = [0] + [t[4] - 1 for t in o["tokens"]]
        toks = [text[a:b] for a, b in zip(cuts, cuts[1:])]
        if "".join(toks) != text:          # trailing text the tokenizer did not turn into a token: keep it as a last piece
            toks.append(text[cuts[-1]:])
        progs.append((name, toks, origin, text))
    _EDITS = edits
    _PROGS = [(p[0], p[1]) for p in progs]
    step = max(200, len(edits) // 24)
    jobs = [(pi, lo, min(len(edits), lo + step), cfg["sub"]) for pi in range(len(progs)) for lo in range(0, len(edits), step)]
    seen = {}
    total = 0
    for pi, ran, bad in driverprops.pool_map(_work, jobs):
        total += ran
        for ei, exc, text in bad:
            key = sites.get(exc)
            if key:
                R.known(key)
                seen[exc] = seen.get(exc, 0) + 1
                continue
            R.violation(dict(kind="pipeline_no_answer_token_edit", outcome="timeout" if exc.startswith("Hang") else "exception",
                             exception_site=exc, edit=edits[ei], file=progs[pi][0], origin=progs[pi][2], text=text))
    R.cov["token_edit_programs"] = len(progs)
    R.cov["token_edit_runs"] = total
    R.cov["token_edit_tokens"] = sum(len(p[1]) for p in progs)
    R.cov["evaluations"] += total
    R.validated(total)
    _EDITS = _PROGS = None
