"""C02: every enforced Norm violation is reported on its line (DESIGN 4.2).

 1. TLC runs Viol.tla (Norm.tla + the violation catalogue): a completed conforming derivation receives exactly
    one violation operator at one applicable site; the state records which code must be reported on which line
    (viol) and a description of the site.  Simulation over the full grammar (random operator, random site) and
    exhaustive over every (operator, site) of every small body structure.
 2. Direction A: each program is concretised and run: the report must contain one of the operator's codes on the
    predicted line, the status must be Error, and (sample) the command line must exit non-zero.  A miss is a
    VIOLATION unless the (operator, site class) is a listed finding.
"""
import os
import json

import cache
import cli
import extract
import normgen
import observe
import normprops
import driverprops
from evidence import Run, known_keys
from common import seed as verif_seed, rng


def match_finding(v, kk):
    site = v.get("site", {})
    for key, f in kk.items():
        m = f.get("match", {})
        if "table" in m:
            tup = [v["op"], site.get("lit"), site.get("prev"), site.get("next"),
                   site.get("next2") if site.get("next") in ("(", "sizeof(") else ""]
            if tup in m["table"]:
                return key
            # a violation next to a following "(" (operator glued to it, blank missing in front of the operator before it ...): the charts (levels 1-2, every charted content of the parenthesis: 30 classes, all
            # "always missed") show that what the parenthesis contains plays no part -- the class is (operator, literal, previous item, "(")
            if tup[3] == "(" and any(t[:4] == tup[:4] for t in m["table"]):
                return key
            continue
        if m.get("op") != v["op"]:
            continue
        ok = True
        for fld in ("k", "lit", "prev", "next", "next2", "first"):
            if fld in m and site.get(fld) not in m[fld]:
                ok = False
        if ok:
            return key
    return None


def _work(job):
    rec, sd = job["rec"], job["seed"]
    name, text, lm = normgen.render(rec, sd)
    v = rec["viol"]
    line = lm[v["line"] - 1] + v.get("off", 0) if 1 <= v["line"] <= len(lm) else None      # off: physical line inside a split statement
    o = observe.run_file(text, name)
    got = [(d[1], d[2], d[3]) for d in o["diags"]]
    if v["line"] == 0:
        hit = any(g[0] in v["code"] for g in got)
    else:
        hit = any(g[0] in v["code"] and g[1] == line for g in got)
    res = dict(idx=job["idx"], hit=hit, status=o["status"], fatal=o["fatal"], exc=o["exc"], line=line, name=name,
               near=[g for g in got if line and g[1] is not None and abs(g[1] - line) <= 1][:6])
    if not hit or o["status"] != "Error" or job.get("keep"):
        res["text"] = text
    return res


def run(pid, tier):
    R = Run(pid, tier)
    extract.write()
    kk = known_keys(pid)
    sd = verif_seed()
    R.cov["rule"] = ("conforming derivations of Norm.tla with exactly one operator of the violation catalogue (58 operators) applied at "
                     "one applicable site: simulation over the full grammar + every (operator, site) of every small body structure "
                     "(exhaustive); non-trivial = all; distinct = distinct (derivation, operator, site)")
    recs = []
    for kind in ("c", "h"):
        for label, fn in (("exhaustive (operator, site) pairs", normprops.exh_corpus), ("simulation", normprops.sim_corpus)):
            if label.startswith("exhaustive") and kind == "h":
                continue
            try:
                if label == "simulation":
                    n = {("quick", "c"): 3200, ("quick", "h"): 320, ("thorough", "c"): 48000, ("thorough", "h"): 3200}[(tier, kind)]
                    stats, exports, was_cached = fn(tier, kind, withviol=True, n=n)
                else:
                    stats, exports, was_cached = exh_viol(tier)
            except Exception as e:  # noqa
                R.machinery(f"TLC Viol {kind} {label}: {e}")
                return R.finish()
            R.add_tlc(f"Viol/{kind}/{label}", stats, cached=was_cached)
            bad = [s for s in stats if not s.ok]
            if bad:
                b = bad[0]
                if b.violated:
                    R.violation(dict(kind="tlc_invariant", module="Viol", invariant=b.violated, detail=(b.error or "")[:3000]))
                    continue
                R.machinery(f"TLC Viol {kind} {label}: {b.error}")
                return R.finish()
            if label == "simulation":
                R.cov["exhaustive"] = False
            recs += [(rec, f"{kind}/{label}") for rec in exports if rec["viol"]["op"] != "none"]
    jobs = [dict(rec=rec, seed=sd * 7 + 1, idx=i, keep=(i % 499 == 0)) for i, (rec, _) in enumerate(recs)]
    results = driverprops.pool_map_shared(_work, jobs)
    per_op = {}
    cli_pick = []
    for w in results:
        rec, origin = recs[w["idx"]]
        v = rec["viol"]
        R.case((hash(json.dumps(rec["prog"], sort_keys=True)), v["op"], v["line"]))
        po = per_op.setdefault(v["op"], [0, 0])
        po[0] += 1
        ok = w["hit"] and w["status"] == "Error" and not w["exc"]
        if ok:
            R.validated()
            if len(cli_pick) < (30 if tier == "quick" else 300) and w["idx"] % 37 == 0:
                cli_pick.append(w["idx"])
            if "text" in w and len(R.cov["samples"]) < 4:
                ln = w["text"].split("\n")[w["line"] - 1] if w["line"] else ""
                R.sample(dict(operator=v["op"], expected=v["code"], line=w["line"], edited_line=ln, site=v["site"]))
            continue
        po[1] += 1
        key = match_finding(v, kk)
        if key and not w["exc"]:
            R.known(key)
            continue
        R.violation(dict(kind="violation_not_reported", origin=origin, operator=v["op"], expected_codes=v["code"], expected_line=w["line"],
                         site=v["site"], status=w["status"], fatal=w["fatal"], exc=w["exc"], reported_nearby=w["near"],
                         file=w["name"], text=w.get("text")))
    R.cov["per_operator"] = {k: dict(sites=a, missed=b) for k, (a, b) in sorted(per_op.items())}
    # exit status through the command line
    for j in cli_pick:
        rec, origin = recs[j]
        name, text, _ = normgen.render(rec, sd * 7 + 1)
        d = cli.scratch(f"c02-{j}")
        try:
            with open(os.path.join(d, name), "w") as f:
                f.write(text)
            res = cli.run_cli([name], d)
        finally:
            cli.cleanup(d)
        R.case(("cli", j))
        out = cli.ANSI.sub("", res["stdout"])
        if res["status"] in (0, None) or res["exc"] or f"{name}: Error!" not in out.split("\n"):
            R.violation(dict(kind="violation_cli_status", operator=rec["viol"]["op"], exit_status=res["status"], exc=res["exc"],
                             stdout_tail=out[-500:], text=text, file=name))
        else:
            R.validated()
    R.assumptions += ["operators and their expected codes: DESIGN 4.2 (calibrated: an operator that fires nowhere is not claimed)"]
    return R.finish()


def exh_viol(tier):
    import lexmodel
    mb = 3      # both tiers: MaxBody 4 gives 1.6e6 (structure, operator, site) triples, more than the replay harness holds;
    #             the thorough tier grows the simulated part instead
    k = cache.key("violexh", mb)
    c = cache.get(k)
    if c is not None:
        return [lexmodel.Stat(s) for s in c["stats"]], c["exports"], True
    rs, exports = normgen.exhaustive("violexh", kind="c", maxfuncs=1, maxbody=mb, maxdepth=2, withviol=True)
    stats = [dict(distinct=r.distinct, generated=r.generated, wall=r.wall, ok=r.ok, violated=r.violated, error=r.error,
                  stdout_path=r.stdout_path) for r in rs]
    if all(r.ok for r in rs):
        cache.put(k, dict(stats=stats, exports=exports))
    return [lexmodel.Stat(s) for s in stats], exports, False


def replay(pid, path):
    rec = json.load(open(path))
    if not rec.get("text"):
        print("no text in replay record")
        return 2
    o = observe.run_file(rec["text"], rec.get("file", "test.c"))
    got = [(d[1], d[2], d[3]) for d in o["diags"]]
    line = rec.get("expected_line")
    hit = any(g[0] in rec["expected_codes"] and (line is None or g[1] == line) for g in got)
    print("expected", rec["expected_codes"], "on line", line, "; reported:", [g for g in got if line is None or abs((g[1] or 0) - line) <= 1], "status", o["status"])
    if not hit or o["status"] != "Error":
        key = match_finding(dict(op=rec.get("operator"), site=rec.get("site") or {}), known_keys(pid))
        if key and o["exc"] is None and not o["fatal"]:
            print(f"KNOWN-FINDING: property={pid} {key}")
            return 0
        print(f"VIOLATION property={pid} replay={path}")
        return 1
    return 0
