"""C04, C06, C15, C16: the command-line driver (DESIGN sections 4.4, 4.6, 4.15, 4.16).

 1. TLC checks Driver.tla exhaustively over an input family (histories of file classes / directory trees and
    argument lists / option combinations): the implementation-shaped actions of main() satisfy the intent
    properties (OneVerdictPerFile, OKIffNoError, ExitZeroIffAllOK, FatalNamesFileAndFails, EmptySelectionClean,
    SharedStateRestored, PureVerdict, SelectedExactly, OptionsArePresentation).
 2. Direction A: every behaviour TLC exports (input + predicted output records + exit status) is
    materialised on disk and the real command line is executed on it; the decoded output records and the
    exit status must equal the prediction.
"""
import os
import sys
import json
import collections
import subprocess
import multiprocessing as mp

import cache
import tlc
import extract
import corpus
import cli
import lexmodel
from evidence import Run, known_keys
from common import rng, REPO, BUILD

INV = ["TypeOK", "OneVerdictPerFile", "OKIffNoError", "ExitZeroIffAllOK", "FatalNamesFileAndFails",
       "EmptySelectionClean", "SharedStateRestored", "PureVerdict", "SelectedExactly", "OptionsArePresentation",
       "ExportInv"]
DEFINE_CODES = {"MACRO_NAME_CAPITAL", "MACRO_FUNC_FORBIDDEN", "PREPROC_CONSTANT"}


def job(fam, maxn, maxargs, s, n):
    cfg = tlc.cfg_text(constants=[f'Family = "{fam}"', f"MaxN = {maxn}", f"MaxArgs = {maxargs}", "Dev <- cDev",
                                  f"Shard = {s}", f"NShards = {n}"], invariants=INV)
    return dict(name=f"drv-{fam}-{s}", root="DriverMC", defs={"cDev": "{}"}, cfg=cfg, workers=1, timeout=3000)


def cached_family(fam, maxn, maxargs):
    k = cache.key("driver", fam, maxn, maxargs, INV)
    c = cache.get(k)
    if c is not None:
        return [lexmodel.Stat(s) for s in c["stats"]], c["exports"], True
    rs = tlc.run_many([job(fam, maxn, maxargs, s, 16) for s in range(16)])
    exports = []
    for r in rs:
        exports.extend(r.exports)
        r.exports = []
    stats = [dict(distinct=r.distinct, generated=r.generated, wall=r.wall, ok=r.ok, violated=r.violated,
                  error=r.error, stdout_path=r.stdout_path) for r in rs]
    if all(r.ok for r in rs):
        cache.put(k, dict(stats=stats, exports=exports))
    return [lexmodel.Stat(s) for s in stats], exports, False


# --------------------------------------------------------------------------- materialisation
ERRV = ["trailing_space", "no_paren_return", "space_indent", "decl_assign", "for_loop", "op_spacing"]
ERRDEF = ["define_expr", "macro_lower"]
FATV = ["directive", "paren", "garbage"]


def content_for(cls, name, idx):
    if name.endswith(".h"):
        return corpus.clean_h(name)
    if cls == "clean":
        return corpus.clean_c(name)
    if cls == "notice":
        return corpus.notice_c(name)
    if cls == "err":
        return corpus.err_c(name, ERRV[idx % len(ERRV)])
    if cls == "errdef":
        return corpus.err_c(name, ERRDEF[idx % len(ERRDEF)])
    if cls == "errmany":
        return corpus.err_many_c(name)
    if cls == "fatal":
        return corpus.fatal_c(name, FATV[idx % len(FATV)])
    if cls == "fatalif":
        return corpus.fatal_c(name, "if_expr")
    return corpus.clean_c(name)


def materialise(rec, d, unique_names):
    """create the tree of an export record under d; returns node -> (relative path, base name)"""
    tree = rec["tree"]
    paths = {0: ("", "")}
    for i, nd in enumerate(tree, start=1):
        name = nd["name"]
        if unique_names == "samestem" and nd["kind"] == "file":
            # every file of the run has the same stem, in its own directory (unit.c / unit.h alternate)
            name = "unit.h" if (nd["cls"] == "clean" and i % 2 == 0) else "unit.c"
            os.makedirs(os.path.join(d, f"d{i}"), exist_ok=True)
            paths[i] = (os.path.join(f"d{i}", name), name)
            with open(os.path.join(d, paths[i][0]), "w") as f:
                f.write(content_for(nd["cls"], name, i))
            continue
        if unique_names and nd["kind"] == "file":
            name = f"f{i}_{nd['cls']}.c"
        parent = paths[nd["parent"]][0]
        rel = os.path.join(parent, name) if parent else name
        paths[i] = (rel, name)
        full = os.path.join(d, rel)
        if nd["kind"] == "dir":
            os.makedirs(full, exist_ok=True)
        else:
            os.makedirs(os.path.dirname(full) or d, exist_ok=True)
            with open(full, "w") as f:
                f.write(content_for(nd["cls"], name, i))
    ignored = [paths[i][0] for i, nd in enumerate(tree, start=1) if nd.get("ignored")]
    if rec["opts"].get("gitignore"):
        subprocess.run(["git", "init", "-q", "."], cwd=d, stdout=subprocess.DEVNULL, stderr=subprocess.DEVNULL)
        with open(os.path.join(d, ".gitignore"), "w") as f:
            for p in ignored:
                f.write("/" + p.replace(" ", "\\ ") + "\n")
    return paths


def argv_for(rec, paths):
    o = rec["opts"]
    av = []
    if o["format"] != "humanized":
        av += ["-f", o["format"]]
    if not o["colors"]:
        av += ["--no-colors"]
    if o["only"]:
        av += ["-o"]
    if o["debug"]:
        av += ["-" + "d" * o["debug"]]
    if o["R"] != "none":
        av += ["-R", o["R"]]
    if o["gitignore"]:
        av += ["--use-gitignore"]
    return av


def predicted_records(rec, paths, with_status=True):
    out = []
    for o in rec["out"]:
        if o["kind"] == "missing":
            out.append(("missing", "", ""))
        else:
            name = paths[o["node"]][1]
            out.append((o["kind"], name, o["st"] if (with_status and o["kind"] != "reject") else ""))
    return sorted(out)


def observed_records(dec, with_status=True):
    out = []
    for k, name, st in dec["records"]:
        if k == "missing":
            out.append(("missing", "", ""))
        else:
            out.append((k, name, st if (with_status and k != "reject") else ""))
    return sorted(out)


# --------------------------------------------------------------------------- workers (run in a Pool)
def _work_cli(job):
    """job: dict(rec, idx, mode, subprocess)"""
    rec = job["rec"]
    d = cli.scratch(f"j{job['idx']}")
    try:
        fam = job["fam"]
        paths = materialise(rec, d, unique_names=(job.get("naming", True) if fam == "history" else False))
        av = argv_for(rec, paths)
        inline = rec["opts"].get("inline", "none")
        if inline != "none":
            nd = rec["tree"][0]
            name = "a.c"
            text = content_for(nd["cls"], name, 1)
            av += ["--cfile", text]
            if inline == "cfile+name":
                av += ["--filename", name]
            else:
                paths = {0: ("", ""), 1: ("file.c", "file.c")}
        else:
            for a in rec["args"]:
                if a["node"] == -1:
                    av.append("no such path")
                elif a["node"] == 0:
                    av.append(".")
                else:
                    av.append(paths[a["node"]][0] + ("/" if a["slash"] and rec["tree"][a["node"] - 1]["kind"] == "dir" else ""))
        res = (cli.run_subprocess if job.get("subprocess") else cli.run_cli)(av, d)
        fmt = rec["opts"]["format"]
        so = res["stdout"]
        if rec["opts"]["debug"]:
            so = cli.split_debug(so)
        dec = cli.decode(so, fmt)
        return dict(idx=job["idx"], argv=[a if len(a) < 80 else a[:40] + "..." for a in av], res=dict(res, stdout=res["stdout"][-3000:]),
                    dec=dec, paths={str(k): v for k, v in paths.items()}, fam=fam, naming=job.get("naming", True), content_idx=job["idx"])
    finally:
        cli.cleanup(d)


def pool_map(fn, jobs, procs=16, chunksize=None):
    if not jobs:
        return []
    with mp.get_context("fork").Pool(procs) as p:
        return p.map(fn, jobs, chunksize=chunksize or max(1, len(jobs) // (procs * 8)))


_SHARED = None


def _call_shared(args):
    fn, lo, hi = args
    return [fn(_SHARED[i]) for i in range(lo, hi)]


def pool_map_shared(fn, items, procs=16):
    """like pool_map, but the items reach the workers through fork (no pickling of big records): only index ranges travel"""
    global _SHARED
    if not items:
        return []
    _SHARED = items
    n = len(items)
    step = max(1, n // (procs * 8))
    try:
        with mp.get_context("fork").Pool(procs) as p:
            parts = p.map(_call_shared, [(fn, lo, min(n, lo + step)) for lo in range(0, n, step)], chunksize=1)
    finally:
        _SHARED = None
    return [x for part in parts for x in part]


def tlc_family(R, fam, maxn, maxargs):
    try:
        stats, exports, was_cached = cached_family(fam, maxn, maxargs)
    except Exception as e:  # noqa
        R.machinery(f"TLC driver {fam}: {e}")
        return None
    R.add_tlc(f"Driver/{fam}/MaxN={maxn}/MaxArgs={maxargs}", stats, cached=was_cached)
    bad = [s for s in stats if not s.ok]
    if bad:
        b = bad[0]
        if b.violated:
            R.violation(dict(kind="tlc_invariant", family=fam, invariant=b.violated, detail=(b.error or "")[:3000]))
        else:
            R.machinery(f"TLC driver {fam}: {b.error}")
        return None
    return exports


def compare_cli(R, rec, w, with_status, what):
    paths = {int(k): tuple(v) for k, v in w["paths"].items()}
    res, dec = w["res"], w["dec"]
    pred = predicted_records(rec, paths, with_status)
    obs = observed_records(dec, with_status)
    problems = []
    if res["exc"]:
        problems.append(f"internal exception {res['exc']}")
    if res["status"] != rec["status"]:
        problems.append(f"exit status {res['status']}, predicted {rec['status']}")
    if obs != pred:
        problems.append("output records differ")
    if rec["opts"]["format"] == "json" and dec["json_ok"] is False:
        problems.append("JSON output does not parse")
    if problems:
        R.violation(dict(kind=what, problems=problems, argv=w["argv"],
                         tree=[(n["parent"], paths[i + 1][1], n["kind"], n["cls"], n["ignored"]) for i, n in enumerate(rec["tree"])],
                         args=rec["args"], opts=rec["opts"], predicted=pred, observed=obs, predicted_status=rec["status"],
                         observed_status=res["status"], exc=res["exc"], stdout_tail=res["stdout"][-1500:],
                         stderr_tail=res["stderr"][-800:],
                         replay=dict(rec=rec, fam=w.get("fam"), naming=w.get("naming", True), idx=w.get("content_idx", 0), with_status=with_status)))
        return False
    R.validated()
    return True


# --------------------------------------------------------------------------- C04
def run_c04(pid, tier):
    R = Run(pid, tier)
    extract.write()
    maxn = 3 if tier == "quick" else 4
    R.cov["rule"] = (f"all sequences of length 0..{maxn} over the classes clean/notice/err/fatal/fatal-in-#if, as explicit paths and "
                     "through a directory argument, in both output formats (TLC, exhaustive); each executed through the real CLI; "
                     "non-trivial = at least one file; distinct = distinct (sequence, argument mode, format)")
    exports = tlc_family(R, "history", maxn, 0)
    if exports is None:
        return R.finish()
    jobs = [dict(rec=rec, idx=i, fam="history", subprocess=(i % 40 == 0)) for i, rec in enumerate(exports)]
    # the same histories with every file sharing one stem (unit.c / unit.h in separate directories), explicit paths only
    nbase = len(exports)
    for i in range(nbase):
        rec = exports[i]
        if rec["args"] and rec["args"][0]["node"] != 0 and len(rec["tree"]) >= 2:
            exports.append(rec)
            jobs.append(dict(rec=rec, idx=len(exports) - 1, fam="history", naming="samestem"))
    if tier == "thorough":     # longer sampled histories (beyond the exhaustive bound)
        r = rng("c04long")
        classes = ["clean", "notice", "err", "fatal", "fatalif"]
        for j in range(300):
            n = r.randint(5, 12)
            h = [r.choice(classes) for _ in range(n)]
            exports.append(synth_history(h, r.random() < 0.5, r.choice(["humanized", "json"])))
            jobs.append(dict(rec=exports[-1], idx=len(exports) - 1, fam="history"))
    results = pool_map(_work_cli, jobs)
    for w in results:
        rec = exports[w["idx"]]
        h = tuple(n["cls"] for n in rec["tree"])
        R.case((h, len(rec["args"]), rec["opts"]["format"]), nontrivial=len(h) > 0)
        ok = compare_cli(R, rec, w, True, "cli_history")
        if ok and len(h) >= 3 and "fatal" in h and "err" in h:
            R.sample(dict(history=h, argv=w["argv"], predicted=predicted_records(rec, {int(k): tuple(v) for k, v in w["paths"].items()}),
                          exit_status=rec["status"]))
    R.assumptions += ["class representatives come from harness/corpus.py (clean = conforming program, notice = + g_ global, "
                      "err = one violation, fatal = unknown directive / unclosed parenthesis / unrecognisable line)"]
    return R.finish()


def synth_history(h, via_dir, fmt):
    """prediction for a history longer than the exhaustive bound, by the same closed form as Driver.tla's
    Format/Exit actions (used only for the sampled extension in the thorough tier)"""
    tree = [dict(parent=0, name="a.c", kind="file", cls=c, ignored=False) for c in h]
    fat = [i + 1 for i, c in enumerate(h) if c in ("fatal", "fatalif")]
    out = [dict(kind="fatal", node=i, st="Error") for i in fat]
    out += [dict(kind="verdict", node=i + 1, st="Error" if c == "err" else "OK") for i, c in enumerate(h) if i + 1 not in fat]
    status = 1 if any(c in ("err", "fatal", "fatalif") for c in h) else 0
    args = [dict(node=0, slash=False)] if via_dir else [dict(node=i + 1, slash=False) for i in range(len(h))]
    opts = dict(format=fmt, colors=True, only=False, debug=0, R="none", gitignore=False, inline="none")
    return dict(tree=tree, args=args, opts=opts, files=list(range(1, len(h) + 1)), out=out, status=status)


# --------------------------------------------------------------------------- C15
def run_c15(pid, tier):
    R = Run(pid, tier)
    extract.write()
    maxn, maxargs = (3, 1) if tier == "quick" else (3, 2)      # quick: + every overlapping pair of arguments (Driver.tla OverlapArgs)
    R.cov["rule"] = (f"all directory trees with up to {maxn} nodes (files with .c/.h/look-alike suffixes, names with spaces and dots, "
                     f"directories incl. one named sub.c, nesting, git-ignored files) x all argument lists of length 0..{maxargs} "
                     "(files, directories with/without trailing slash, a missing path), with and without --use-gitignore (TLC, exhaustive "
                     "in the model); a seeded covering sample is materialised and run through the real CLI")
    exports = tlc_family(R, "tree", maxn, maxargs)
    if exports is None:
        return R.finish()
    r = rng("c15")
    budget = 2500 if tier == "quick" else 12000
    small = [e for e in exports if len(e["tree"]) <= 2 or (len(e["args"]) == 2 and maxargs < 2)]
    big = [e for e in exports if not (len(e["tree"]) <= 2 or (len(e["args"]) == 2 and maxargs < 2))]
    chosen = small + (r.sample(big, min(len(big), max(0, budget - len(small)))) if big else [])
    if len(chosen) < len(exports):
        R.cov["exhaustive"] = False
        R.cov["exhaustive_note"] = f"model: exhaustive ({len(exports)} behaviours); CLI replay: {len(chosen)} (all trees with <= 2 nodes + seeded sample)"
    jobs = [dict(rec=rec, idx=i, fam="tree", subprocess=(i % 200 == 0)) for i, rec in enumerate(chosen)]
    results = pool_map(_work_cli, jobs)
    for w in results:
        rec = chosen[w["idx"]]
        sig = (tuple((n["parent"], n["name"], n["kind"], n["ignored"]) for n in rec["tree"]),
               tuple((a["node"], a["slash"]) for a in rec["args"]), rec["opts"]["gitignore"])
        R.case(sig, nontrivial=len(rec["tree"]) > 0)
        ok = compare_cli(R, rec, w, False, "cli_selection")
        if ok and len(rec["tree"]) == 3 and any(n["name"] == "sub.c" for n in rec["tree"]) and len(rec["files"]) >= 1:
            R.sample(dict(tree=[(n["parent"], n["name"], n["kind"]) for n in rec["tree"]], argv=w["argv"],
                          predicted=predicted_records(rec, {int(k): tuple(v) for k, v in w["paths"].items()}, False)))
    R.assumptions += ["hidden names (leading dot) and symbolic links are outside the domain", "git is available for --use-gitignore"]
    return R.finish()


# --------------------------------------------------------------------------- C16
def run_c16(pid, tier):
    R = Run(pid, tier)
    extract.write()
    R.cov["rule"] = ("every combination of format x colours x -o x debug level x -R word (incl. near misses of CheckDefine) x "
                     "file / --cfile / --cfile+--filename for each file class (TLC, exhaustive); each executed through the real CLI "
                     "and its decoded findings compared with the findings under default options")
    exports = tlc_family(R, "options", 0, 0)
    if exports is None:
        return R.finish()
    jobs = [dict(rec=rec, idx=i, fam="options", subprocess=(i % 300 == 0)) for i, rec in enumerate(exports)]
    results = pool_map(_work_cli, jobs)
    # baseline findings per class: default options, file based
    base = {}
    for w in results:
        rec = exports[w["idx"]]
        o = rec["opts"]
        if (o["format"], o["colors"], o["only"], o["debug"], o["R"], o["inline"]) == ("humanized", True, False, 0, "none", "none"):
            base[rec["tree"][0]["cls"]] = w
    for w in results:
        rec = exports[w["idx"]]
        cls = rec["tree"][0]["cls"]
        o = rec["opts"]
        R.case((cls, tuple(sorted(o.items()))))
        if not compare_cli(R, rec, w, True, "cli_options"):
            continue
        b = base.get(cls)
        if b is None or not b["dec"]["files"] or not w["dec"]["files"]:
            R.violation(dict(kind="cli_options", problems=["no decoded file report"], argv=w["argv"], stdout_tail=w["res"]["stdout"][-800:]))
            continue
        want = [d for d in b["dec"]["files"][0]["diags"] if not (o["R"] == "CheckDefine" and d[1] in DEFINE_CODES)]
        got = w["dec"]["files"][0]["diags"]
        if sorted(want) != sorted(got):
            R.violation(dict(kind="cli_options", problems=["diagnostics differ from those under default options"], argv=w["argv"],
                             cls=cls, opts=o, expected=sorted(want), observed=sorted(got),
                             replay=dict(rec=rec, fam="options", naming=True, idx=w["idx"], with_status=True)))
            continue
        if o["R"] not in ("none",) and cls == "errdef" and o["debug"] == 0:
            R.sample(dict(cls=cls, argv=w["argv"], verdict=w["dec"]["files"][0]["status"], diagnostics=got))
    R.assumptions += ["with -d/-dd the report is the trailing block of verdict/diagnostic lines of stdout"]
    return R.finish()


def run(pid, tier):
    return {"C04": run_c04, "C15": run_c15, "C16": run_c16}[pid](pid, tier)


class _Probe:
    """stand-in for evidence.Run in a replay: records whether compare_cli objected"""
    def __init__(self):
        self.bad = None

    def violation(self, rec):
        self.bad = rec

    def validated(self, n=1):
        pass


def replay(pid, path):
    rec = json.load(open(path))
    print(json.dumps({k: rec.get(k) for k in ("problems", "argv", "predicted", "observed", "predicted_status", "observed_status", "exc")},
                     indent=1, default=str))
    rp = rec.get("replay")
    if not rp:
        print("(record without replay data: re-run `./check %s`)" % pid)
        return 2
    job = dict(rec=rp["rec"], idx=rp.get("idx", 0), fam=rp["fam"], naming=rp.get("naming", True), subprocess=True)
    w = _work_cli(job)
    P = _Probe()
    ok = compare_cli(P, rp["rec"], w, rp.get("with_status", True), rec.get("kind", "cli"))
    if ok and rec.get("kind") == "cli_options":
        # the findings under these options against the findings of the same file under default options
        base = dict(rp["rec"], opts=dict(rp["rec"]["opts"], format="humanized", colors=True, only=False, debug=0, R="none", inline="none"))
        wb = _work_cli(dict(job, rec=base))
        o = rp["rec"]["opts"]
        want = [d for d in wb["dec"]["files"][0]["diags"] if not (o["R"] == "CheckDefine" and d[1] in DEFINE_CODES)] if wb["dec"]["files"] else None
        got = w["dec"]["files"][0]["diags"] if w["dec"]["files"] else None
        print("default options:", want, "\nthese options:  ", got)
        ok = want is not None and got is not None and sorted(want) == sorted(got)
    print("now:", "agrees with the model" if ok else (P.bad or {}).get("problems", "differs"))
    if not ok:
        print(f"VIOLATION property={pid} replay={path}")
        return 1
    return 0
