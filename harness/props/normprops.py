"""C01 (conforming files are accepted) and C07 (every statement examined exactly once) -- DESIGN 4.1, 4.7.

 1. TLC runs Norm.tla: (a) exhaustively over every STRUCTURE of a small bound (every order of statement kinds,
    nesting, braces, else chains; canonical fillers), (b) in simulation over the full grammar with random fillers
    (up to 5 functions x 25 lines, expression table of Expr.tla), checking IndentIsDepth, DepthZeroAtTop, WidthOK,
    BodyOK, Feasible in every state.  Each completed derivation is exported with the statement kind and scope the
    engine must report for every line.
 2. Direction A: each program is concretised and run through the real pipeline.  C01: verdict OK, no Error-level
    diagnostic, no fatal error; a sample through the real command line (exit 0, `<name>: OK!`).
    C07: the statement events observed at Context.pop_tokens tile the token list, each consumes >= 1 token, there
    are exactly as many as the derivation has lines, each starts in column 1 and ends with NEWLINE, and the scope
    is back at file level after each function.  The predicted rule kind per statement is compared too (soft).
"""
import os
import json

import cache
import tlc
import cli
import corpus
import extract
import normgen
import observe
import lexmodel
import driverprops
from evidence import Run, known_keys
from common import seed as verif_seed, rng

HEADER_STMTS = 11


def sim_corpus(tier, kind, withviol=False, n=None, sd=None):
    """simulated derivations (cached per spec digest + seed)"""
    sd = verif_seed() if sd is None else sd
    if n is None:
        n = {("quick", "c"): 1600, ("quick", "h"): 480, ("thorough", "c"): 24000, ("thorough", "h"): 6400}[(tier, kind)]
    lvl = 2 if tier == "quick" else 3
    k = cache.key("normsim", kind, n, sd, lvl, withviol)
    c = cache.get(k)
    if c is not None:
        return [lexmodel.Stat(s) for s in c["stats"]], c["exports"], True
    rs, exports = normgen.simulate(f"normsim-{kind}{'v' if withviol else ''}", n, sd, kind=kind, exprlevel=lvl, withviol=withviol)
    stats = [dict(distinct=max(r.distinct, len(r.prints) + 1), generated=r.generated, wall=r.wall, ok=r.ok, violated=r.violated,
                  error=r.error, stdout_path=r.stdout_path) for r in rs]
    if all(r.ok for r in rs):
        cache.put(k, dict(stats=stats, exports=exports))
    return [lexmodel.Stat(s) for s in stats], exports, False


def exh_corpus(tier, kind, withviol=False):
    mb = 4 if tier == "quick" else 5
    if kind == "h":
        mb = 4
    selmod = 5 if (mb >= 5 and kind == "c" and not withviol) else 1       # 7.4e5 structures at MaxBody 5: 1 in 5 is replayed
    k = cache.key("normexh", kind, mb, withviol, selmod)
    c = cache.get(k)
    if c is not None:
        return [lexmodel.Stat(s) for s in c["stats"]], c["exports"], True
    rs, exports = normgen.exhaustive(f"normexh-{kind}", kind=kind, maxfuncs=1, maxbody=mb, maxdepth=2, withviol=withviol, selmod=selmod)
    stats = [dict(distinct=r.distinct, generated=r.generated, wall=r.wall, ok=r.ok, violated=r.violated,
                  error=r.error, stdout_path=r.stdout_path) for r in rs]
    if all(r.ok for r in rs):
        cache.put(k, dict(stats=stats, exports=exports))
    return [lexmodel.Stat(s) for s in stats], exports, False


def predicted_stmts(rec):
    out = []
    for ln in rec["prog"]:
        if ln["k"] == "header42":
            out += ["IsComment"] * HEADER_STMTS
        elif ln["st"] == "IsComment3":
            out.append("IsComment")
        else:
            out.append(ln["st"])
    return out


def _work(job):
    rec, sd, idx = job["rec"], job["seed"], job["idx"]
    name, text, linemap = normgen.render(rec, sd, name=job.get("name"))
    o = observe.run_file_traced(text, name)
    ev = o["events"]
    res = dict(idx=idx, seed=sd, status=o["status"], fatal=o["fatal"], exc=o["exc"],
               errors=[d for d in o["diags"] if d[0] == "Error"][:6], nd=len(o["diags"]))
    # C07 laws
    c07 = []
    if o["fatal"] is None and o["exc"] is None:
        if sum(e[1] for e in ev) != o["ntokens"]:
            c07.append("statements do not tile the token list")
        if any(e[1] < 1 for e in ev):
            c07.append("a statement consumed no token")
        if any(e[0] is None for e in ev):
            c07.append("an unrecognised token was skipped")
        pred = predicted_stmts(rec)
        if len(ev) != len(pred):
            c07.append(f"{len(ev)} statements observed, the derivation has {len(pred)}")
        bad = [(e[2], e[3], e[4]) for e in ev if e[3] != 1 or e[4] != "NEWLINE"]
        if bad:
            c07.append(f"statement not aligned on line boundaries: {bad[:2]}")
        # scope back at file level after each function: the statement after a top-level closing brace
        for i, ln in enumerate(rec["prog"]):
            pass
        depth_bad = [e for j, e in enumerate(ev) if e[0] == "IsFuncDeclaration" and j > 0 and ev[j - 1][5] != "GlobalScope"]
        if depth_bad:
            c07.append("a function definition starts while the scope is not back at file level")
        if ev and ev[-1][5] != "GlobalScope":
            c07.append("the scope is not back at file level at the end of the file")
        res["kinds_equal"] = [e[0] for e in ev] == pred
        if not res["kinds_equal"]:
            res["kinds_diff"] = [(a, b) for a, b in zip([e[0] for e in ev], pred) if a != b][:3]
    res["c07"] = c07
    if job.get("keep_text") or res["errors"] or res["fatal"] or res["exc"] or c07:
        res["text"] = text
    res["name"] = name
    res["nstmts"] = len(ev)
    return res


def gather(R, tier, kinds=("c", "h")):
    """TLC runs + jobs; returns list of (rec, origin)"""
    allrecs = []
    for kind in kinds:
        for label, fn in (("exhaustive structures", exh_corpus), ("simulation", sim_corpus)):
            try:
                stats, exports, was_cached = fn(tier, kind)
            except Exception as e:  # noqa
                R.machinery(f"TLC Norm {kind} {label}: {e}")
                return None
            R.add_tlc(f"Norm/{kind}/{label}", stats, cached=was_cached)
            bad = [s for s in stats if not s.ok]
            if bad:
                b = bad[0]
                if b.violated:
                    R.violation(dict(kind="tlc_invariant", module="Norm", config=f"{kind}/{label}", invariant=b.violated,
                                     detail=(b.error or "")[:3000]))
                    continue
                R.machinery(f"TLC Norm {kind} {label}: {b.error}")
                return None
            if label == "simulation":
                R.cov["exhaustive"] = False
            allrecs += [(rec, f"{kind}/{label}") for rec in exports]
    return allrecs


def run(pid, tier):
    R = Run(pid, tier)
    extract.write()
    sd = verif_seed()
    R.cov["rule"] = ("derivations of Norm.tla: every structure of a function body up to the small bound (exhaustive, canonical fillers) "
                     "+ simulated derivations of the full grammar (.c: includes, defines, globals, prototypes, comments, 1..5 functions "
                     "up to 25 lines, nesting 3; .h: guard, includes, defines, struct/union/enum typedef blocks, prototypes); each "
                     "concretised and run through the real pipeline; non-trivial = at least one function or type block; "
                     "distinct = distinct abstract derivations")
    recs = gather(R, tier)
    if recs is None:
        return R.finish()
    nseeds = 1 if tier == "quick" else 2
    jobs = []
    for i, (rec, origin) in enumerate(recs):
        for s in range(nseeds):
            jobs.append(dict(rec=rec, seed=sd * 7 + s, idx=i, keep_text=(i % 997 == 0)))
    results = driverprops.pool_map_shared(_work, jobs)
    cli_jobs = []
    for w in results:
        rec, origin = recs[w["idx"]]
        sig = json.dumps(rec["prog"], sort_keys=True)
        R.case(hash(sig), nontrivial=len(rec["prog"]) > 3)
        if pid == "C01":
            bad = []
            if w["fatal"]:
                bad.append(f"fatal parse error: {w['fatal'][:120]}")
            if w["exc"]:
                bad.append(f"internal exception {w['exc']}")
            if w["errors"]:
                bad.append(f"Error-level diagnostics {[(d[1], d[2], d[3]) for d in w['errors']]}")
            if not bad and w["status"] != "OK":
                bad.append(f"status {w['status']}")
            if bad:
                R.violation(dict(kind="conforming_rejected", origin=origin, problems=bad, file=w["name"], text=w.get("text"),
                                 seed=w["seed"]))
                continue
        else:
            if w["fatal"] or w["exc"]:
                continue        # C01/C05 territory; the partition laws are about runs that reach a verdict
            if w["c07"]:
                R.violation(dict(kind="segmentation", origin=origin, problems=w["c07"], file=w["name"], text=w.get("text"),
                                 seed=w["seed"]))
                continue
        if w.get("kinds_equal") is False:
            R.soft(f"{origin}: rule kinds differ from Norm.tla's prediction: {w.get('kinds_diff')}")
        R.validated()
        if "text" in w and len(R.cov["samples"]) < 3:
            R.sample(dict(origin=origin, file=w["name"], statements=w["nstmts"], text=w["text"][900:2400]))
    if pid == "C01":
        # the command line itself on a sample: `<name>: OK!` and exit status 0
        r = rng("c01cli")
        pick = r.sample(range(len(recs)), min(len(recs), 40 if tier == "quick" else 400))
        for j in pick:
            rec, origin = recs[j]
            name, text, _ = normgen.render(rec, sd * 7)
            d = cli.scratch(f"c01-{j}")
            try:
                with open(os.path.join(d, name), "w") as f:
                    f.write(text)
                res = cli.run_subprocess([name], d) if j % 10 == 0 else cli.run_cli([name], d)
            finally:
                cli.cleanup(d)
            R.case(("cli", j))
            out = cli.ANSI.sub("", res["stdout"])
            if res["status"] != 0 or res["exc"] or f"{name}: OK!" not in out.split("\n"):
                R.violation(dict(kind="conforming_rejected_cli", origin=origin, file=name, exit_status=res["status"], exc=res["exc"],
                                 stdout_tail=out[-600:], text=text))
            else:
                R.validated()
    if pid == "C07":
        import enginemc
        enginemc.run_into(R, tier, replay=True)
        engine_traces(R, tier, recs, sd)
        import c07garb
        c07garb.run_into(R, tier)
    R.assumptions += ["the conforming grammar is my reading of the Norm (DESIGN 4.1); slots are spelled by harness/concretise.py",
                      "simulation part is seeded by VERIF_SEED"]
    return R.finish()


def engine_traces(R, tier, recs, sd):
    """direction B for the engine: statement traces of the repository's sample files and of a sample of the corpus
    validated by TLC against EngineTrace.tla (Engine!Step explains every event; partition, well-formedness, depth)"""
    import glob
    import enginetrace
    from common import REPO
    traces, meta = [], {}
    tid = 0
    for f in sorted(glob.glob(os.path.join(REPO, "tests/rules/samples/*.[ch]"))):
        try:
            text = open(f).read()
        except Exception:  # noqa
            continue
        tid += 1
        t, o = enginetrace.record(text, tid, os.path.basename(f))
        t["complete"] = False          # samples are arbitrary text: no claim about their final depth or token total
        traces.append(t)
        meta[tid] = ("sample", f, None)
    r = rng("c07engine")
    pick = r.sample(range(len(recs)), min(len(recs), 150 if tier == "quick" else 1500))
    for j in pick:
        rec, origin = recs[j]
        name, text, _ = normgen.render(rec, sd * 7)
        tid += 1
        t, o = enginetrace.record(text, tid, name)
        traces.append(t)
        meta[tid] = ("corpus", origin, text)
    try:
        verdicts = enginetrace.validate(traces, name="enginetrace-C07")
    except Exception as e:  # noqa
        R.machinery(str(e))
        return
    for t, v in sorted(verdicts.items()):
        kind, where, text = meta[t]
        R.case(("engine-trace", t))
        strict = [c for c in ("part", "wf") + (("depth",) if kind == "corpus" else ()) if v[c]]
        if strict:
            R.violation(dict(kind="engine_trace", source=kind, where=where, failing={c: v[c] for c in strict}, text=text,
                             note="partition (n >= 1, sum = tokens), scope well-formedness or depth back at file level fails "
                                  "on the recorded statement trace (EngineTrace.tla)"))
            continue
        R.validated()
        if v["scope"] or v["lines"]:
            R.soft(f"engine trace {kind} {os.path.basename(str(where))}: the scope chain / line counter departs from Engine.tla at event "
                   f"{v['scope'] or v['lines']} (model drift, the C07 laws hold)")
    R.cov["engine_traces"] = len(traces)
    R.cov["engine_events"] = sum(len(t["events"]) for t in traces)


def replay(pid, path):
    rec = json.load(open(path))
    text = rec.get("text")
    if not text:
        print("replay record has no text")
        return 2
    o = observe.run_file_traced(text, rec.get("file", "test.c"))
    errs = [d for d in o["diags"] if d[0] == "Error"]
    print("status", o["status"], "fatal", o["fatal"], "exc", o["exc"], "errors", [(d[1], d[2], d[3]) for d in errs])
    if o["fatal"] or o["exc"] or errs:
        print(f"VIOLATION property={pid} replay={path}")
        return 1
    return 0
