"""C17 (comment text and string contents are opaque), C18 (diagnostics do not depend on how identifiers are
spelled), C19 (diagnostics are local) -- DESIGN 4.17, 4.18, 4.19.

All three are relations between two runs on related inputs.  The specification side: in Norm.tla / Viol.tla an
identifier, a constant, a string, a comment is a SLOT (class, width, identity) -- no action reads a spelling, so
two concretisations of one derivation are by construction the same abstract behaviour; Locality.tla pairs a
derivation with its transform and states the law the diagnostics must obey.  The implementation side (what these
checks decide): the abstraction function text -> (class, width) is well defined on the real tool iff any two
concretisations of one derivation get the same diagnostics.
"""
import os
import json
import collections

import cache
import tlc
import extract
import normgen
import observe
import lexmodel
import normprops
import driverprops
import c13
import c14
from concretise import Speller, FILLER_CLASSES
from evidence import Run, known_keys
from common import seed as verif_seed, rng


def diag_list(o):
    return sorted((d[0], d[1], d[2], d[3]) for d in o["diags"])


def corpus_for(R, tier, kinds=("c", "h"), with_guard=True):
    recs = []
    for kind in kinds:
        for wv in (False, True):
            n = {("quick", "c"): 800, ("quick", "h"): 240, ("thorough", "c"): 8000, ("thorough", "h"): 1600}[(tier, kind)]
            try:
                stats, exports, was_cached = normprops.sim_corpus(tier, kind, withviol=wv, n=n)
            except Exception as e:  # noqa
                R.machinery(f"TLC corpus {kind} viol={wv}: {e}")
                return None
            R.add_tlc(f"{'Viol' if wv else 'Norm'}/{kind}/simulation", stats, cached=was_cached)
            if any(not s.ok for s in stats):
                b = [s for s in stats if not s.ok][0]
                R.machinery(f"TLC corpus: {b.violated or b.error}")
                return None
            recs += [(rec, None) for rec in exports]
    if with_guard:
        stats, exports, was_cached = c14.cached(1)
        R.add_tlc("Guard (complete product)", stats, cached=was_cached)
        recs += [(rec, "".join(rec["name"])) for rec in exports]
        stats, exports, was_cached = c13.cached(1)
        R.add_tlc("Header42 (complete product)", stats, cached=was_cached)
        recs += [(rec, None) for rec in exports if rec["bidx"] == 1]
    R.cov["exhaustive"] = False
    return recs


def _work_pair(job):
    rec, name = job["rec"], job["name"]
    a = Speller(**job["a"])
    b = Speller(**job["b"])
    n1, t1, _ = normgen.render(rec, name=name, speller=a)
    n2, t2, _ = normgen.render(rec, name=name, speller=b)
    o1 = observe.run_file(t1, n1)
    o2 = observe.run_file(t2, n2)
    same = (diag_list(o1) == diag_list(o2) and o1["status"] == o2["status"] and bool(o1["fatal"]) == bool(o2["fatal"])
            and o1["exc"] == o2["exc"])
    res = dict(idx=job["idx"], same=same, differs=t1 != t2, exc=[o1["exc"], o2["exc"]], name=n1, tag=job["tag"])
    if not same or job.get("keep"):
        res.update(text_a=t1, text_b=t2, diags_a=diag_list(o1), diags_b=diag_list(o2), fatal=[o1["fatal"], o2["fatal"]])
    return res


def run_pairs(R, pid, recs, variants, what):
    jobs = []
    for i, (rec, name) in enumerate(recs):
        for tag, a, b in variants(i):
            jobs.append(dict(rec=rec, name=name, a=a, b=b, idx=i, tag=tag, keep=(len(jobs) % 701 == 0)))
    results = driverprops.pool_map_shared(_work_pair, jobs)
    for w in results:
        rec, _ = recs[w["idx"]]
        R.case((w["idx"], w["tag"]), nontrivial=w["differs"])
        if w["same"]:
            R.validated()
            if "text_a" in w and w["differs"] and len(R.cov["samples"]) < 3:
                la, lb = w["text_a"].split("\n"), w["text_b"].split("\n")
                d = [(x, y) for x, y in zip(la, lb) if x != y][:4]
                R.sample(dict(variant=w["tag"], file=w["name"], differing_lines=d, diagnostics=w["diags_a"][:5]))
            continue
        if any(w["exc"]):
            continue          # an internal exception is C05's finding, not a relation between two verdicts
        da, db = set(map(tuple, w["diags_a"])), set(map(tuple, w["diags_b"]))
        R.violation(dict(kind=what, variant=w["tag"], file=w["name"], only_in_a=sorted(da - db)[:6], only_in_b=sorted(db - da)[:6],
                         fatal=w["fatal"], text_a=w["text_a"], text_b=w["text_b"]))


def run_c18(pid, tier):
    R = Run(pid, tier)
    extract.write()
    sd = verif_seed()
    R.cov["rule"] = ("every derivation of the conforming / single-violation corpora (.c and .h), of Guard.tla and Header42.tla, rendered "
                     "twice with different identifier spellings of the same class and length (independent random names; names built "
                     "around other names of the file; keyword-prefixed names) and identical everything else; non-trivial = the two "
                     "texts differ; distinct = (derivation, renaming style)")
    recs = corpus_for(R, tier)
    if recs is None:
        return R.finish()
    base = dict(seed=sd, quoted_seed=sd, other_seed=sd)

    def variants(i):
        return [("independent", dict(base, ident_seed=sd * 3 + 1), dict(base, ident_seed=sd * 3 + 2)),
                ("embed", dict(base, ident_seed=sd * 3 + 1), dict(base, ident_seed=sd * 3 + 3, style="embed")),
                ("kwprefix", dict(base, ident_seed=sd * 3 + 1), dict(base, ident_seed=sd * 3 + 4, style="kwprefix")),
                ("nearspecial", dict(base, ident_seed=sd * 3 + 1), dict(base, ident_seed=sd * 3 + 5, style="nearspecial"))]
    run_pairs(R, pid, recs, variants, "renaming_changes_diagnostics")
    # the keyword table must stay disjoint from every spelling class used (TLC, over the extracted table)
    used = set()
    sp = Speller(sd, style="kwprefix")
    for cls in ("v", "p", "f", "g", "m", "fld"):
        for w in range(1, 11):
            for n in range(6):
                used.add(sp.named(cls, w, n))
    import extract as ex
    defs = {"cUsed": "{" + ", ".join(ex.tla_seq(u) for u in sorted(used)) + "}"}
    cfg = tlc.cfg_text(constants=["Used <- cUsed"], invariants=["Trivial"])
    r = tlc.run(name="spellings", root="Spellings", defs=defs, cfg=cfg, workers=1)
    R.add_tlc("Spellings (keyword table vs spelling classes)", r)
    if not r.ok:
        R.violation(dict(kind="keyword_swallows_identifier", detail=(r.error or "")[:1500],
                         note="a spelling of an ordinary identifier class is a key of the lexer's keyword table"))
    return R.finish()


def run_c17(pid, tier):
    R = Run(pid, tier)
    extract.write()
    sd = verif_seed()
    R.cov["rule"] = ("every derivation of the corpora carrying comments / strings / character constants, rendered twice with the text "
                     "inside them drawn from two different filler classes (letters, operators, brackets, semicolons, keywords, "
                     "preprocessor words, the other quote, digits, question marks, mixed) of the same displayed width, identical "
                     "everything else; non-trivial = the two texts differ; distinct = (derivation, pair of classes)")
    recs = corpus_for(R, tier, with_guard=False)
    if recs is None:
        return R.finish()
    classes = list(FILLER_CLASSES)
    base = dict(seed=sd)

    quoted_ops = {"line_too_long", "comment_in_body", "eol_comment_body", "mid_comment"}
    nfull = collections.Counter()

    def variants(i):
        out = []
        k = len(classes)
        pairs = [(classes[(i + j) % k], classes[(i + j + 1 + (j % (k - 1))) % k]) for j in range(2 if tier == "quick" else 6)]
        # the violation variants that ADD quoted text (an over-long comment line, a comment in a body / after or inside a
        # statement): every class against plain letters, for the first few derivations of each operator
        rec = recs[i][0] if isinstance(recs[i], (tuple, list)) else recs[i]
        op = (rec.get("viol") or {}).get("op")
        if op in quoted_ops and nfull[op] < (6 if tier == "quick" else 40):
            nfull[op] += 1
            pairs = [("letters", c) for c in classes if c != "letters"]
        for a, b in pairs:
            if a != b:
                out.append((f"{a}/{b}", dict(base, quoted_class=a, quoted_seed=sd * 5 + 1), dict(base, quoted_class=b, quoted_seed=sd * 5 + 2)))
        return out
    run_pairs(R, pid, recs, variants, "filler_changes_diagnostics")
    return R.finish()


# ------------------------------------------------------------------------------------------------ C19
def loc_corpus(tier, kind, withviol):
    sd = verif_seed()
    n = {("quick", "c"): 1600, ("quick", "h"): 320, ("thorough", "c"): 4800, ("thorough", "h"): 960}[(tier, kind)]      # every behaviour exports ~20 transforms
    k = cache.key("locality", kind, withviol, n, sd)
    c = cache.get(k)
    if c is not None:
        return [lexmodel.Stat(s) for s in c["stats"]], c["exports"], True
    per = max(1, n // 16)
    jobs = []
    for j in range(16):
        cfg = tlc.cfg_text(spec="LocSpec", constants=normgen.consts(5, 25, 3, 2, True, kind, withviol),
                           invariants=["IndentIsDepth", "DepthZeroAtTop", "Feasible", "PairWellFormed", "ExportInv"])
        jobs.append(dict(name=f"loc-{kind}{int(withviol)}-{j}", root="LocalityMC", defs={}, cfg=cfg, workers=1, timeout=1800,
                         simulate=f"num={per}", depth=420, seed=sd * 1000 + j + (500 if withviol else 0)))
    rs = tlc.run_many(jobs)
    exports = []
    for r in rs:
        exports.extend(r.exports)
        r.exports = []
    stats = [dict(distinct=r.distinct, generated=r.generated, wall=r.wall, ok=r.ok, violated=r.violated, error=r.error,
                  stdout_path=r.stdout_path) for r in rs]
    if all(r.ok for r in rs):
        cache.put(k, dict(stats=stats, exports=exports))
    return [lexmodel.Stat(s) for s in stats], exports, False


def _work_loc(job):
    rec, sd = job["rec"], job["seed"]
    sp1 = Speller(sd)
    n1, t1, lm1 = normgen.render(rec, name=None, speller=sp1, prog_key="prog")
    sp2 = Speller(sd)
    n2, t2, lm2 = normgen.render(rec, name=None, speller=sp2, prog_key="prog2")
    o1 = observe.run_file(t1, n1)
    o2 = observe.run_file(t2, n2)
    law = rec["law"]
    d1 = [(d[0], d[1], d[2], d[3]) for d in o1["diags"]]
    d2 = [(d[0], d[1], d[2], d[3]) for d in o2["diags"]]
    if law["t"] == "L1":
        # prog has the header, prog2 not: D(prog) = shift(D(prog2) \ INVALID_HEADER, 12)
        want = sorted((lv, c, ln + 12, col) for (lv, c, ln, col) in d2 if c != "INVALID_HEADER")
        got = sorted(d1)
    elif law["t"] == "L2":
        k = lm2[law["k"] - 1]            # text line of the inserted comment in the transformed file
        want = sorted((lv, c, ln if ln < k else ln + 1, col) for (lv, c, ln, col) in d1)
        got = sorted(d2)
    else:
        want = sorted(d1)
        got = sorted(d2)
    ok = want == got and bool(o1["fatal"]) == bool(o2["fatal"])
    res = dict(idx=job["idx"], ok=ok, exc=[o1["exc"], o2["exc"]], law=law)
    if not ok or job.get("keep"):
        res.update(text=t1, text2=t2, want=want[:12], got=got[:12], fatal=[o1["fatal"], o2["fatal"]], names=[n1, n2],
                   kline=(lm2[law["k"] - 1] if law["t"] == "L2" else 0),
                   missing=sorted(set(want) - set(got))[:6], extra=sorted(set(got) - set(want))[:6])
    return res


def run_c19(pid, tier):
    R = Run(pid, tier)
    extract.write()
    sd = verif_seed()
    R.cov["rule"] = ("Locality.tla: derivations (conforming and single-violation, .c and .h) paired with a transform: L1 header removed, "
                     "L2 a comment line (three forms) inserted at a top-level boundary, L3 a conforming function appended; both rendered "
                     "with the same spellings; the diagnostics must obey the law of the transform; distinct = (derivation, transform, k)")
    recs = []
    for kind in ("c", "h"):
        for wv in (False, True):
            try:
                stats, exports, was_cached = loc_corpus(tier, kind, wv)
            except Exception as e:  # noqa
                R.machinery(f"TLC Locality {kind}: {e}")
                return R.finish()
            R.add_tlc(f"Locality/{kind}/{'violating' if wv else 'conforming'}", stats, cached=was_cached)
            bad = [s for s in stats if not s.ok]
            if bad:
                b = bad[0]
                if b.violated:
                    R.violation(dict(kind="tlc_invariant", module="Locality", invariant=b.violated, detail=(b.error or "")[:3000]))
                    continue
                R.machinery(f"TLC Locality: {b.error}")
                return R.finish()
            recs += exports
    R.cov["exhaustive"] = False
    jobs = [dict(rec=rec, seed=sd * 19 + 1, idx=i, keep=(i % 397 == 0)) for i, rec in enumerate(recs)]
    results = driverprops.pool_map_shared(_work_loc, jobs)
    for w in results:
        rec = recs[w["idx"]]
        R.case((w["idx"], rec["law"]["t"], rec["law"]["k"]))
        if any(w["exc"]):
            continue
        if w["ok"]:
            R.validated()
            if "text" in w and len(R.cov["samples"]) < 3:
                R.sample(dict(law=rec["law"], violation=rec["viol"]["op"], diagnostics_before=w["want"][:4], diagnostics_after=w["got"][:4]))
            continue
        R.violation(dict(kind="locality", law=rec["law"], violation_op=rec["viol"]["op"], missing=w["missing"], extra=w["extra"],
                         fatal=w["fatal"], text=w["text"], text2=w["text2"], names=w.get("names"), kline=w.get("kline", 0)))
    return R.finish()


def run(pid, tier):
    return {"C17": run_c17, "C18": run_c18, "C19": run_c19}[pid](pid, tier)


def replay(pid, path):
    rec = json.load(open(path))
    if pid == "C19":
        names = rec.get("names") or ["test.c", "test.c"]
        o1 = observe.run_file(rec["text"], names[0])
        o2 = observe.run_file(rec["text2"], names[1])
        d1 = [(d[0], d[1], d[2], d[3]) for d in o1["diags"]]
        d2 = [(d[0], d[1], d[2], d[3]) for d in o2["diags"]]
        law = rec["law"]
        if law["t"] == "L1":
            want, got = sorted((lv, c, ln + 12, col) for (lv, c, ln, col) in d2 if c != "INVALID_HEADER"), sorted(d1)
        elif law["t"] == "L2":
            k = rec.get("kline") or 0
            if not k:
                print("(record without the line of the inserted comment: re-run `./check C19`)")
                return 2
            want, got = sorted((lv, c, ln if ln < k else ln + 1, col) for (lv, c, ln, col) in d1), sorted(d2)
        else:
            want, got = sorted(d1), sorted(d2)
        print("law", law, "\nexpected:", want[:10], "\nobserved:", got[:10])
        if want != got or bool(o1["fatal"]) != bool(o2["fatal"]):
            print(f"VIOLATION property={pid} replay={path}")
            return 1
        return 0
    o1 = observe.run_file(rec["text_a"], rec["file"])
    o2 = observe.run_file(rec["text_b"], rec["file"])
    print("a:", diag_list(o1)[:10], "\nb:", diag_list(o2)[:10])
    if diag_list(o1) != diag_list(o2):
        print(f"VIOLATION property={pid} replay={path}")
        return 1
    return 0
