"""C13: the 42 header is recognised exactly (DESIGN 4.13).

 1. TLC enumerates Header42.tla: header shapes (lengths of file name, login, domain) x {unmutated, each structural
    mutation} x bodies; checks that every line of the template is exactly 80 columns for every shape (TemplateOK,
    through the specification's own width function), that the intended recogniser accepts it and rejects every
    mutation (MutationsRejected).
 2. Direction A: each case is concretised with several spellings of the fields (letters, digits, - _ . in names,
    arbitrary date digits) and run: the number of INVALID_HEADER diagnostics must be 0 for an unmutated header
    and exactly 1 for every mutation.  The thorough tier also splices every header variant onto bodies drawn
    from the conforming corpus of Norm.tla.
"""
import json

import cache
import tlc
import extract
import normgen
import observe
import lexmodel
import normprops
import driverprops
from evidence import Run, known_keys
from common import seed as verif_seed, rng


def cached(level):
    k = cache.key("header42", level)
    c = cache.get(k)
    if c is not None:
        return [lexmodel.Stat(s) for s in c["stats"]], c["exports"], True
    cfg = tlc.cfg_text(spec="HSpec", constants=normgen.consts(5, 25, 3, 1, False, "c", False) + [f"HLevel = {level}"],
                       invariants=["TemplateOK", "MutationsRejected", "ExportInv"])
    r = tlc.run(name="hdr42", root="Header42MC", defs={}, cfg=cfg, workers=1, timeout=1800)
    stats = [dict(distinct=r.distinct, generated=r.generated, wall=r.wall, ok=r.ok, violated=r.violated, error=r.error,
                  stdout_path=r.stdout_path)]
    if r.ok:
        cache.put(k, dict(stats=stats, exports=r.exports))
    return [lexmodel.Stat(s) for s in stats], r.exports, False


def _work(job):
    rec, sd = job["rec"], job["seed"]
    name, text, lm = normgen.render(rec, sd, name=job.get("name"))
    o = observe.run_file(text, name)
    n = sum(1 for d in o["diags"] if d[1] == "INVALID_HEADER")
    res = dict(idx=job["idx"], n=n, fatal=o["fatal"], exc=o["exc"], name=name, seed=sd)
    if n != rec["expect"] or job.get("keep"):
        res["text"] = text
    return res


def run(pid, tier):
    R = Run(pid, tier)
    extract.write()
    sd = verif_seed()
    R.cov["rule"] = ("Header42.tla: header shapes x (unmutated | 31 structural mutations) x bodies (TLC, complete product); each case "
                     "run with several spellings of the header fields; thorough: header variants spliced onto conforming bodies of "
                     "Norm.tla; distinct = distinct (shape, mutation, body)")
    try:
        stats, exports, was_cached = cached(1 if tier == "quick" else 2)
    except Exception as e:  # noqa
        R.machinery(f"TLC Header42: {e}")
        return R.finish()
    R.add_tlc("Header42 (complete product)", stats, cached=was_cached)
    bad = [s for s in stats if not s.ok]
    if bad:
        b = bad[0]
        if b.violated:
            R.violation(dict(kind="tlc_invariant", module="Header42", invariant=b.violated, detail=(b.error or "")[:3000]))
        else:
            R.machinery(f"TLC Header42: {b.error}")
        return R.finish()
    recs = list(exports)
    if tier == "thorough":
        # splice the header variants of the first shape onto conforming bodies of the Norm corpus
        st, corpus, _ = normprops.sim_corpus("quick", "c")
        r = rng("c13")
        variants = [e for e in exports if e["bidx"] == 1]
        for body in r.sample(corpus, min(len(corpus), 200)):
            v = r.choice(variants)
            nb = len([x for x in v["prog"]]) - 4       # lines of the variant before its own 4-line body
            recs.append(dict(kind="c", prog=v["prog"][:nb] + body["prog"][2:], m=v["m"], expect=v["expect"], shape=v["shape"], bidx=0))
    nseeds = 3 if tier == "quick" else 4
    jobs = [dict(rec=rec, seed=sd * 13 + s, idx=i, keep=(i % 41 == 0 and s == 0)) for i, rec in enumerate(recs) for s in range(nseeds)]
    results = driverprops.pool_map(_work, jobs)
    for w in results:
        rec = recs[w["idx"]]
        R.case((json.dumps(rec["shape"], sort_keys=True), rec["m"], rec["bidx"], hash(json.dumps(rec["prog"][-3:], sort_keys=True))))
        if w["exc"]:
            continue
        if w["n"] == rec["expect"]:
            R.validated()
            if "text" in w and len(R.cov["samples"]) < 3:
                R.sample(dict(mutation=rec["m"], shape=rec["shape"], invalid_header_count=w["n"], head=w["text"][:900]))
            continue
        R.violation(dict(kind="header_recognition", mutation=rec["m"], shape=rec["shape"], expected_count=rec["expect"], observed_count=w["n"],
                         fatal=w["fatal"], file=w["name"], seed=w["seed"], text=w.get("text")))
    return R.finish()


def replay(pid, path):
    rec = json.load(open(path))
    o = observe.run_file(rec["text"], rec.get("file", "test.c"))
    n = sum(1 for d in o["diags"] if d[1] == "INVALID_HEADER")
    print("mutation", rec["mutation"], "expected", rec["expected_count"], "observed", n)
    if n != rec["expected_count"]:
        print(f"VIOLATION property={pid} replay={path}")
        return 1
    return 0
