"""./check setup : verify the toolchain, parse every module, pre-compute the spec-only TLC exports of the
quick tier (they depend on spec/*.tla and the extracted tables only).  Nothing is fetched."""
import os
import sys
import glob
import shutil
import subprocess

from common import SPEC, BUILD, ensure_dirs, PY


def main():
    ensure_dirs()
    for tool in ("java",):
        if shutil.which(tool) is None:
            print(f"setup: {tool} not found", file=sys.stderr)
            return 2
    if not os.path.exists("/opt/veriftools/tla/tla2tools.jar"):
        print("setup: tla2tools.jar not found", file=sys.stderr)
        return 2
    import extract
    extract.write()
    # parse all modules
    d = os.path.join(BUILD, "sany")
    shutil.rmtree(d, ignore_errors=True)
    os.makedirs(d)
    for f in glob.glob(os.path.join(SPEC, "*.tla")):
        shutil.copy(f, d)
    shutil.copy(os.path.join(BUILD, "Extracted.tla"), d)
    bad = 0
    for f in sorted(glob.glob(os.path.join(d, "*.tla"))):
        p = subprocess.run(["java", "-cp", "/opt/veriftools/tla/tla2tools.jar:/opt/veriftools/tla/CommunityModules-deps.jar",
                            "tla2sany.SANY", os.path.basename(f)], cwd=d, capture_output=True, text=True)
        if p.returncode != 0 or "*** Errors" in p.stdout or "Fatal errors" in p.stdout:
            print(f"setup: SANY rejects {os.path.basename(f)}\n{p.stdout[-1500:]}", file=sys.stderr)
            bad += 1
    if bad:
        return 2
    # warm the caches of the quick tier
    import warm
    return warm.main("quick")


if __name__ == "__main__":
    sys.exit(main())
