"""Direction B for the engine: statement traces recorded from the real Registry.run validated by TLC against
EngineTrace.tla (Engine!Step must explain every event)."""
import os
import re
import json

import tlc
import observe
from common import BUILD

_V = re.compile(r'<<\s*"EVERDICT",\s*(\d+),\s*(\d+),\s*(\d+),\s*(\d+),\s*(\d+),\s*(\d+)\s*>>', re.S)


def record(text, tid, name="file.c"):
    o = observe.engine_trace(text, name)
    return dict(id=tid, events=o["events"], ntokens=o["ntokens"], complete=o["complete"]), o


def validate(traces, name="enginetrace", timeout=1800, chunks=16):
    """{id: dict(scope, wf, part, depth, lines)} : index of the first failing event per clause, 0 = none"""
    if not traces:
        return {}
    n = max(1, min(chunks, len(traces) // 20 or 1))
    parts = [traces[i::n] for i in range(n)]
    os.makedirs(os.path.join(BUILD, "traces"), exist_ok=True)
    jobs = []
    for j, part in enumerate(parts):
        path = os.path.join(BUILD, "traces", f"{name}-{os.getpid()}-{j}.json")
        with open(path, "w") as f:
            json.dump(part, f)
        cfg = tlc.cfg_text(spec="TSpec", constants=[])
        jobs.append(dict(name=f"{name}-{j}", root="EngineTrace", defs={}, cfg=cfg, workers=1, timeout=timeout,
                         extra_env={"TRACE_FILE": path}, xss="256m", keep_exports=False))
    out = {}
    for r, part in zip(tlc.run_many(jobs), parts):
        if not r.ok:
            raise RuntimeError(f"TLC engine trace validation failed: {r.error or r.violated} ({r.stdout_path})")
        with open(r.stdout_path, errors="replace") as fh:
            text = fh.read()
        for m in _V.finditer(text):
            out[int(m.group(1))] = dict(scope=int(m.group(2)), wf=int(m.group(3)), part=int(m.group(4)), depth=int(m.group(5)),
                                        lines=int(m.group(6)))
        missing = [t["id"] for t in part if t["id"] not in out]
        if missing:
            raise RuntimeError(f"no verdict for engine traces {missing[:5]} ({r.stdout_path})")
    return out
