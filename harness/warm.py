"""Pre-compute the spec-only TLC results (cache) of a tier: they depend on spec/*.tla, the extracted tables, the
configuration and (for simulations) VERIF_SEED only -- never on the implementation's behaviour."""
import os
import sys
import time

sys.path.insert(0, os.path.join(os.path.dirname(os.path.abspath(__file__)), "props"))


def main(tier="quick"):
    t0 = time.time()
    import extract
    extract.write()

    def step(label, fn):
        t = time.time()
        try:
            r = fn()
            stats = r[0]
            bad = [s for s in stats if not s.ok]
            print(f"warm: {label}: {sum(s.distinct for s in stats)} states{' (cached)' if r[2] else ''} {time.time() - t:.0f}s"
                  f"{' NOT OK: ' + str(bad[0].violated or bad[0].error)[:200] if bad else ''}", flush=True)
        except Exception as e:  # noqa
            print(f"warm: {label}: FAILED {e}", flush=True)

    import lexmodel
    for cfgname, (alpha, qlen, tlen) in lexmodel.ALPHABETS.items():
        step(f"Lexer/{cfgname}", lambda c=cfgname, n=(qlen if tier == "quick" else tlen): lexmodel.cached_config(c, n))
    import c12
    for cfgname, (alpha, ql, tl, qa, ta) in c12.ALPHABETS.items():
        step(f"LexerRespell/{cfgname}", lambda c=cfgname, a=((ql, qa) if tier == "quick" else (tl, ta)): c12.cached(c, a[0], a[1]))
    for kind in ("c", "h"):
        for wv in (False, True):
            step(f"RespellProg/{kind}/{wv}", lambda k=kind, w=wv: c12.prog_corpus(tier, k, w))
    import enginemc
    step("EngineMC", lambda: enginemc.cached(tier))
    import c11
    step("Literals", lambda: c11.cached(1))
    import driverprops
    step("Driver/history", lambda: driverprops.cached_family("history", 3 if tier == "quick" else 4, 0))
    step("Driver/tree", lambda: driverprops.cached_family("tree", 3, 1 if tier == "quick" else 2))
    step("Driver/options", lambda: driverprops.cached_family("options", 0, 0))
    import normprops
    for kind in ("c", "h"):
        step(f"Norm/{kind}/exhaustive", lambda k=kind: normprops.exh_corpus(tier, k))
        step(f"Norm/{kind}/simulation", lambda k=kind: normprops.sim_corpus(tier, k))
    import c02
    step("Viol/exhaustive", lambda: c02.exh_viol(tier))
    for kind, n in (("c", 3200), ("h", 320)) if tier == "quick" else (("c", 48000), ("h", 3200)):
        step(f"Viol/{kind}/simulation", lambda k=kind, m=n: normprops.sim_corpus(tier, k, withviol=True, n=m))
    import relprops
    for kind in ("c", "h"):
        for wv in (False, True):
            n = {("quick", "c"): 800, ("quick", "h"): 240, ("thorough", "c"): 8000, ("thorough", "h"): 1600}[(tier, kind)]
            step(f"corpus/{kind}/{wv}", lambda k=kind, w=wv, m=n: normprops.sim_corpus(tier, k, withviol=w, n=m))
            step(f"Locality/{kind}/{wv}", lambda k=kind, w=wv: relprops.loc_corpus(tier, k, w))
    import c03, c13, c14, c05pipe, c07garb
    step("Limits", c03.cached)
    step("Header42", lambda: c13.cached(1 if tier == "quick" else 2))
    step("Guard", lambda: c14.cached(1 if tier == "quick" else 2))
    for cfg in c05pipe.CONFIGS[tier]:
        step(f"Edits/{cfg}", lambda c=cfg: c05pipe.cached(*c))
    for cfg in c07garb.CONFIGS[tier]:
        step(f"Garbage/{cfg}", lambda c=cfg: c07garb.cached(*c))
    print(f"warm: done in {time.time() - t0:.0f}s", flush=True)
    return 0


if __name__ == "__main__":
    sys.exit(main(sys.argv[1] if len(sys.argv) > 1 else "quick"))
