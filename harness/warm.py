"""Pre-compute spec-only TLC results (cache) for a tier."""
import sys


def main(tier="quick"):
    import lexmodel
    for cfgname, (alpha, qlen, tlen) in lexmodel.ALPHABETS.items():
        stats, exports, cached = lexmodel.cached_config(cfgname, qlen if tier == "quick" else tlen)
        bad = [s for s in stats if not s.ok]
        print(f"warm: Lexer/{cfgname}: {sum(s.distinct for s in stats)} states, {len(exports)} behaviours"
              f"{' (cached)' if cached else ''}{' NOT OK: ' + str(bad[0].violated or bad[0].error) if bad else ''}")
    return 0


if __name__ == "__main__":
    sys.exit(main(sys.argv[1] if len(sys.argv) > 1 else "quick"))
