"""Direction B for the tokenizer: record traces from the real Lexer and have TLC validate them
against LexerTrace.tla.  Thousands of traces per TLC invocation."""
import os
import re
import json

import tlc
import observe
from common import BUILD


def record(text, tid, name="file.c"):
    o = observe.lex(text, name)
    return {
        "id": tid,
        "src": list(text),
        "toks": [{"t": t[0], "x": list(t[1] if t[1] is not None else "\x00"), "l": t[2], "c": t[3], "e": t[4]}
                 for t in o["tokens"]],
        "bad": [[d[2][0][0], d[2][0][1]] for d in o["diags"] if d[0] == "BAD_LEXEME"],
        "diags": [{"code": d[0], "level": d[1], "hl": [list(h) for h in d[2]]} for d in o["diags"]],
        "exc": o["exc"] or "",
    }


# TLC wraps long tuples over several lines: match over the whole output
_V = re.compile(r'<<\s*"VERDICT",\s*(\d+),\s*(\d+),\s*(\d+),\s*(\d+),\s*(\d+),\s*\{(.*?)\}\s*>>', re.S)


def validate(traces, dev, name="lextrace", timeout=1800, chunks=16):
    """Returns {id: dict(c05,c09,c10,mach,sites)}; raises RuntimeError on machinery failure."""
    if not traces:
        return {}
    total = sum(len(t["src"]) + 20 for t in traces)
    n = max(1, min(chunks, len(traces), total // 4000 or 1))
    parts = [[] for _ in range(n)]
    load = [0] * n
    for t in sorted(traces, key=lambda t: -len(t["src"])):      # greedy balance by size
        j = load.index(min(load))
        parts[j].append(t)
        load[j] += len(t["src"]) + 20
    jobs = []
    os.makedirs(os.path.join(BUILD, "traces"), exist_ok=True)
    for j, part in enumerate(parts):
        path = os.path.join(BUILD, "traces", f"{name}-{os.getpid()}-{j}.json")
        with open(path, "w") as f:
            json.dump(part, f)
        cfg = tlc.cfg_text(spec="TSpec", constants=["Alpha <- cAlpha", "MaxLen = 0", "Dev <- cDev",
                                                    "Shard = 0", "NShards = 1"])
        jobs.append(dict(name=f"{name}-{j}", root="LexerTrace",
                         defs={"cAlpha": '<<"a">>', "cDev": tlc.tla_set_str(dev)}, cfg=cfg, workers=1,
                         timeout=timeout, extra_env={"TRACE_FILE": path}, xss="512m", keep_exports=False))
    results = tlc.run_many(jobs)
    out = {}
    for r, part in zip(results, parts):
        if not r.ok:
            raise RuntimeError(f"TLC trace validation failed: {r.error or r.violated} ({r.stdout_path})")
        with open(r.stdout_path, errors="replace") as fh:
            text = fh.read()
        for m in _V.finditer(text):
            sites = set(re.findall(r'"([a-z0-9_]+)"', m.group(6)))
            out[int(m.group(1))] = dict(c05=int(m.group(2)), c09=int(m.group(3)), c10=int(m.group(4)),
                                        mach=int(m.group(5)), sites=sites)
        missing = [t["id"] for t in part if t["id"] not in out]
        if missing:
            raise RuntimeError(f"no verdict for traces {missing[:5]} ({r.stdout_path})")
    return out
