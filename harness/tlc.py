"""Run TLC on a module of /verif/spec with generated constants; parse what it says.

A *job* is (root module, constant definitions, cfg body).  The job directory
build/tlc/<name>/ receives copies of spec/*.tla, build/Extracted.tla, a
generated MC.tla (EXTENDS root, constant definitions as operators) and MC.cfg.
"""
import os
import re
import json
import glob
import shutil
import subprocess
import concurrent.futures as cf

from common import SPEC, BUILD, VERIF, sha, ensure_dirs

JAR = "/opt/veriftools/tla/tla2tools.jar"
DEPS = "/opt/veriftools/tla/CommunityModules-deps.jar"
CACHE = os.path.join(BUILD, "cache")


class TLCResult:
    def __init__(self):
        self.ok = False            # finished without error
        self.violated = None       # name of violated invariant/property, if any
        self.error = None          # other error text
        self.generated = 0
        self.distinct = 0
        self.depth = 0
        self.exports = []          # decoded EXPORT records
        self.prints = []           # other PrintT payload lines
        self.stdout_path = None
        self.wall = 0.0
        self.coverage = {}
        self.cached = False

    def summary(self):
        return dict(ok=self.ok, violated=self.violated, error=self.error, generated=self.generated,
                    distinct=self.distinct, depth=self.depth, exports=len(self.exports), wall=self.wall,
                    cached=self.cached)


def spec_files():
    return sorted(glob.glob(os.path.join(SPEC, "*.tla")))


def spec_digest(extra=()):
    parts = []
    for f in spec_files() + list(extra):
        with open(f, "rb") as fh:
            parts.append(fh.read())
    return sha(*parts)


def _prune_old(hours=8):
    """run directories are per process (two checks may run at the same time); old ones are removed here"""
    import time
    now = time.time()
    for base in (os.path.join(BUILD, "tlc"), os.path.join(BUILD, "traces")):
        try:
            for n in os.listdir(base):
                p = os.path.join(base, n)
                if now - os.path.getmtime(p) > hours * 3600:
                    if os.path.isdir(p):
                        shutil.rmtree(p, ignore_errors=True)
                    else:
                        os.remove(p)
        except OSError:
            pass


_PRUNED = False


def _prepare(name, root, defs, cfg):
    global _PRUNED
    if not _PRUNED:
        _PRUNED = True
        _prune_old()
    d = os.path.join(BUILD, "tlc", f"{name}.{os.getpid()}")
    shutil.rmtree(d, ignore_errors=True)
    os.makedirs(d)
    for f in spec_files():
        shutil.copy(f, d)
    ext = os.path.join(BUILD, "Extracted.tla")
    if os.path.exists(ext):
        shutil.copy(ext, d)
    with open(os.path.join(d, "MC.tla"), "w") as f:
        f.write(f"---- MODULE MC ----\nEXTENDS {root}\n")
        for k, v in defs.items():
            f.write(f"{k} == {v}\n")
        f.write("====\n")
    with open(os.path.join(d, "MC.cfg"), "w") as f:
        f.write(cfg)
    return d


_EXPORT = '<<"EXPORT", '


def parse_output(path, res: TLCResult, keep_exports=True):
    err_lines = []
    in_err = False
    with open(path, errors="replace") as f:
        for ln in f:
            if ln.startswith(_EXPORT):
                if keep_exports:
                    inner = ln.rstrip("\n")[len(_EXPORT):-2]
                    try:
                        res.exports.append(json.loads(json.loads(inner)))
                    except Exception as e:  # noqa
                        res.error = f"unparsable EXPORT line: {ln[:200]!r} ({e})"
                continue
            m = re.match(r"(\d+) states generated, (\d+) distinct states found", ln)
            if m:
                res.generated, res.distinct = int(m.group(1)), int(m.group(2))
                continue
            m = re.match(r"Progress: (\d+) states checked, (\d+) traces generated", ln)
            if m:      # simulation mode
                res.generated = max(res.generated, int(m.group(1)))
                res.distinct = max(res.distinct, int(m.group(1)))
                res.traces = int(m.group(2))
                continue
            m = re.match(r"The depth of the complete state graph search is (\d+)", ln)
            if m:
                res.depth = int(m.group(1))
                continue
            m = re.match(r"Error: Invariant (\S+) is violated", ln)
            if m:
                res.violated = m.group(1)
                in_err = True
                continue
            m = re.match(r"Error: (Action|Temporal) propert(y|ies) .*?(\S+) (is|was|were) violated", ln)
            if m:
                res.violated = m.group(3)
                in_err = True
                continue
            if ln.startswith("Error:"):
                in_err = True
                err_lines.append(ln.strip())
                continue
            if "Model checking completed. No error has been found." in ln or \
               re.match(r"Finished in .*", ln) and not in_err and res.error is None:
                if "No error" in ln:
                    res.ok = True
            if ln.startswith("<<") or ln.startswith('"'):
                res.prints.append(ln.rstrip("\n"))
            elif in_err and len(err_lines) < 40:
                err_lines.append(ln.rstrip())
    if res.violated:
        res.ok = False
        res.error = "\n".join(err_lines[:40])
    elif err_lines:
        res.ok = False
        res.error = "\n".join(err_lines[:40])
    return res


def _shrink(path, limit=8 << 20):
    """the EXPORT lines are parsed (and cached) by now: keep only the head and the tail of a big output file"""
    try:
        if os.path.getsize(path) <= limit:
            return
        with open(path, errors="replace") as fh:
            lines = fh.readlines()
        keep = [ln for ln in lines if not ln.startswith('<<"EXPORT"')]
        if len(keep) == len(lines):
            return                      # nothing to drop (verdict lines of trace validation are kept whole)
        with open(path, "w") as fh:
            fh.writelines(keep + ["... (export lines dropped after parsing)\n"])
    except OSError:
        pass


def _die_with_parent():
    """TLC must not outlive an interrupted check (PR_SET_PDEATHSIG = 1)"""
    try:
        import ctypes
        import signal
        ctypes.CDLL("libc.so.6", use_errno=True).prctl(1, signal.SIGKILL)
    except Exception:  # noqa
        pass


def run(name, root, defs, cfg, workers=1, timeout=3600, simulate=None, depth=None, seed=None,
        xss="64m", heap="3g", keep_exports=True, coverage=False, extra_env=None, deadlock=False):
    """Run one TLC job synchronously."""
    import time
    ensure_dirs()
    d = _prepare(name, root, defs, cfg)
    out = os.path.join(d, "tlc.out")
    meta = os.path.join(d, "meta")
    jtmp = os.path.join(d, "jtmp")      # TLC unpacks its standard modules into java.io.tmpdir: keep that inside the run directory
    os.makedirs(jtmp, exist_ok=True)
    cmd = ["java", f"-Xss{xss}", f"-Xmx{heap}", "-XX:+UseSerialGC", "-XX:CICompilerCount=2", f"-Djava.io.tmpdir={jtmp}",
           "-cp", f"{JAR}:{DEPS}", "tlc2.TLC",
           "-workers", str(workers), "-metadir", meta, "-noGenerateSpecTE", "-config", "MC.cfg"]
    if simulate:
        cmd += ["-simulate", simulate]
    if depth:
        cmd += ["-depth", str(depth)]
    if seed is not None:
        cmd += ["-seed", str(seed)]
    if coverage:
        cmd += ["-coverage", "1"]
    cmd += ["MC.tla"]
    env = dict(os.environ)
    if extra_env:
        env.update(extra_env)
    res = TLCResult()
    res.stdout_path = out
    t0 = time.time()
    with open(out, "w") as fh:
        try:
            p = subprocess.run(cmd, cwd=d, stdout=fh, stderr=subprocess.STDOUT, timeout=timeout, env=env, preexec_fn=_die_with_parent)
            rc = p.returncode
        except subprocess.TimeoutExpired:
            rc = -9
            res.error = f"TLC timed out after {timeout}s"
    res.wall = round(time.time() - t0, 2)
    parse_output(out, res, keep_exports)
    _shrink(out)
    if rc not in (0,) and res.violated is None and res.error is None:
        res.error = f"TLC exit status {rc}; see {out}"
        res.ok = False
    if rc == 0 and res.error is None and res.violated is None:
        res.ok = True
    shutil.rmtree(meta, ignore_errors=True)
    shutil.rmtree(jtmp, ignore_errors=True)
    return res


def run_many(jobs, max_procs=16):
    """jobs: list of kwargs for run(); executed in parallel processes (threads driving subprocesses)."""
    out = [None] * len(jobs)
    with cf.ThreadPoolExecutor(max_workers=max_procs) as ex:
        futs = {ex.submit(run, **j): i for i, j in enumerate(jobs)}
        for fu in cf.as_completed(futs):
            out[futs[fu]] = fu.result()
    return out


def cfg_text(spec="Spec", constants=(), invariants=(), properties=(), constraints=(), extra=""):
    lines = [f"SPECIFICATION {spec}", "CONSTANTS"]
    lines += [f" {c}" for c in constants]
    lines += [f"INVARIANT {i}" for i in invariants]
    lines += [f"PROPERTY {p}" for p in properties]
    lines += [f"CONSTRAINT {c}" for c in constraints]
    lines.append("CHECK_DEADLOCK FALSE")
    if extra:
        lines.append(extra)
    return "\n".join(lines) + "\n"


def tla_chars(chars):
    from extract import tla_char
    return "<<" + ", ".join(tla_char(c) for c in chars) + ">>"


def tla_set_str(items):
    return "{" + ", ".join('"' + i + '"' for i in sorted(items)) + "}"
