"""Run the real command line (norminette.__main__.main) in a forked child, in a scratch directory,
and decode what it printed into abstract output records."""
import os
import re
import sys
import json
import shutil
import pickle
import traceback

from common import BUILD, REPO, import_impl

import_impl()

ANSI = re.compile(r"\x1b\[[0-9;]*m")
RUNROOT = os.path.join(BUILD, "run")


def scratch(tag):
    d = os.path.join(RUNROOT, f"{os.getpid()}-{tag}")
    shutil.rmtree(d, ignore_errors=True)
    os.makedirs(d)
    return d


def cleanup(d):
    shutil.rmtree(d, ignore_errors=True)


def _child(argv, cwd, wfd, keep_state=None):
    """executed in the forked child"""
    import io
    import contextlib
    out, err = io.StringIO(), io.StringIO()
    status = None
    exc = None
    try:
        os.chdir(cwd)
        sys.argv = ["norminette"] + list(argv)
        from norminette.__main__ import main
        with contextlib.redirect_stdout(out), contextlib.redirect_stderr(err):
            try:
                main()
                status = 0
            except SystemExit as e:
                status = e.code if isinstance(e.code, int) else (0 if e.code is None else 1)
    except BaseException as e:  # noqa
        tb = traceback.extract_tb(e.__traceback__)
        fr = [x for x in tb if "/norminette/" in x.filename]
        exc = f"{type(e).__name__}@{os.path.basename(fr[-1].filename)}:{fr[-1].name}" if fr else type(e).__name__
    res = dict(stdout=out.getvalue(), stderr=err.getvalue(), status=status, exc=exc,
               reclimit=sys.getrecursionlimit())
    with os.fdopen(wfd, "wb") as f:
        pickle.dump(res, f)
    os._exit(0)


def run_cli(argv, cwd, timeout=60):
    """one CLI execution in a fresh forked process (the parent has norminette imported already)"""
    r, w = os.pipe()
    pid = os.fork()
    if pid == 0:
        os.close(r)
        try:
            _child(argv, cwd, w)
        finally:
            os._exit(1)
    os.close(w)
    import signal

    def on_alarm(signum, frame):
        raise TimeoutError()
    old = signal.signal(signal.SIGALRM, on_alarm)
    signal.alarm(timeout)
    try:
        with os.fdopen(r, "rb") as f:
            data = f.read()
        os.waitpid(pid, 0)
    except TimeoutError:
        os.kill(pid, 9)
        os.waitpid(pid, 0)
        return dict(stdout="", stderr="", status=None, exc="Timeout", reclimit=None)
    finally:
        signal.alarm(0)
        signal.signal(signal.SIGALRM, old)
    if not data:
        return dict(stdout="", stderr="", status=None, exc="ChildDied", reclimit=None)
    return pickle.loads(data)


def run_subprocess(argv, cwd, timeout=120):
    """the same through a real `python -m norminette` process"""
    import subprocess
    env = dict(os.environ)
    env["PYTHONPATH"] = REPO
    p = subprocess.run([sys.executable, "-m", "norminette"] + list(argv), cwd=cwd, capture_output=True, text=True,
                       timeout=timeout, env=env)
    exc = None
    if "Traceback (most recent call last)" in p.stderr:
        m = re.findall(r"^(\w+(?:Error|Exception|Loop|EOF)\w*)", p.stderr, re.M)
        exc = m[-1] if m else "Traceback"
    return dict(stdout=p.stdout, stderr=p.stderr, status=p.returncode, exc=exc, reclimit=None)


_HVERDICT = re.compile(r"^(.*): (OK|Error)!$")
_HDIAG = re.compile(r"^(Error|Notice): (\S+)\s+\(line:\s*(\d+), col:\s*(\d+)\):\t(.*)$")
_REJECT = re.compile(r"^Error: '(.*)' is not valid C or C header file$")
_MISSING = re.compile(r"^Error: '(.*)' no such file or directory$")


def decode(stdout, fmt="humanized"):
    """-> dict(records=[...], files=[{name,status,diags:[(level,code,line,col,text)]}], junk=[...], json_ok)"""
    text = ANSI.sub("", stdout)
    records, files, junk = [], [], []
    json_ok = None
    lines = text.split("\n")
    i = 0
    cur = None
    while i < len(lines):
        ln = lines[i]
        i += 1
        if ln == "":
            continue
        m = _REJECT.match(ln)
        if m:
            records.append(("reject", m.group(1), ""))
            continue
        m = _MISSING.match(ln)
        if m:
            records.append(("missing", m.group(1), ""))
            continue
        if fmt == "json" and ln.startswith("{"):
            try:
                doc = json.loads(ln)
                json_ok = True
            except Exception:  # noqa
                json_ok = False
                junk.append(ln[:200])
                continue
            for f in doc["files"]:
                name = os.path.basename(f["path"])
                ds = []
                for e in f["errors"]:
                    h = e["highlights"][0] if e["highlights"] else None
                    ds.append((e["level"], e["name"], h["lineno"] if h else None, h["column"] if h else None, e["text"]))
                files.append(dict(name=name, status=f["status"], diags=ds, path=f["path"]))
                records.append(("verdict", name, f["status"]))
            continue
        m = _HVERDICT.match(ln)
        if m:
            # a fatal parse error is "<path>: Error!" followed by a TAB-indented message line
            if m.group(2) == "Error" and i < len(lines) and lines[i].startswith("\t"):
                records.append(("fatal", os.path.basename(m.group(1)), "Error"))
                cur = None
                i += 1
                continue
            if fmt == "humanized":
                cur = dict(name=m.group(1), status=m.group(2), diags=[])
                files.append(cur)
                records.append(("verdict", m.group(1), m.group(2)))
                continue
        m = _HDIAG.match(ln)
        if m and cur is not None and fmt == "humanized":
            cur["diags"].append((m.group(1), m.group(2), int(m.group(3)), int(m.group(4)), m.group(5)))
            continue
        junk.append(ln[:200])
    return dict(records=records, files=files, junk=junk, json_ok=json_ok)


def split_debug(stdout):
    """with -d/-dd the debug stream precedes the report; the report starts at the first verdict line that
    is followed only by diagnostics/verdicts.  Returns the report part."""
    text = ANSI.sub("", stdout)
    lines = text.split("\n")
    # find the last block of lines that parses as a report
    j = len(lines)
    while j > 0 and (lines[j - 1] == "" or _HVERDICT.match(lines[j - 1]) or _HDIAG.match(lines[j - 1])
                     or lines[j - 1].startswith("{\"files\"")):
        j -= 1
    return "\n".join(lines[j:])
