"""Cache of spec-only TLC results (they depend on spec/*.tla, build/Extracted.tla and the
configuration, never on the implementation's behaviour)."""
import os
import gzip
import json

import tlc
from common import BUILD, sha

CACHE = os.path.join(BUILD, "cache")


ROOT_OF = {"lexcfg": "LexerMC", "respell": "LexerRespellMC", "literals": "LiteralsMC", "driver": "DriverMC", "normsim": "ViolMC+NormMC",
           "normexh": "ViolMC+NormMC", "violexh": "ViolMC", "limits": "LimitsMC", "header42": "Header42MC", "guard": "GuardMC",
           "locality": "LocalityMC", "edits": "EditsMC", "garbage": "GarbageMC", "report": "Report",
           "respellprog": "RespellProgMC", "enginemc": "EngineMC", "tokedits": "TokEdits"}


def closure(root):
    """the modules of /verif/spec that `root` depends on (EXTENDS / INSTANCE, transitively)"""
    import re
    from common import SPEC
    seen, todo = [], root.split("+")
    while todo:
        m = todo.pop()
        f = os.path.join(SPEC, m + ".tla")
        if m in seen or not os.path.exists(f):
            continue
        seen.append(m)
        txt = open(f).read()
        for line in re.findall(r"^\s*EXTENDS\s+(.*)$", txt, re.M):
            todo += [x.strip() for x in line.split(",")]
        todo += re.findall(r"INSTANCE\s+(\w+)", txt)
    return sorted(seen)


def key(*parts):
    """cache key: the modules the configuration's root depends on + the extracted tables + the configuration"""
    ext = os.path.join(BUILD, "Extracted.tla")
    root = ROOT_OF.get(parts[0]) if parts else None
    files = [os.path.join(os.path.dirname(ext), "..", "spec", m + ".tla") for m in closure(root)] if root else tlc.spec_files()
    blobs = []
    for f in files + ([ext] if os.path.exists(ext) else []):
        with open(f, "rb") as fh:
            blobs.append(fh.read())
    return sha(*blobs, json.dumps(parts, sort_keys=True, default=str))


def get(k):
    p = os.path.join(CACHE, k + ".json.gz")
    if os.path.exists(p):
        try:
            with gzip.open(p, "rt") as f:
                return json.load(f)
        except Exception:  # noqa
            return None
    return None


def put(k, obj):
    os.makedirs(CACHE, exist_ok=True)
    p = os.path.join(CACHE, k + ".json.gz")
    tmp = p + f".{os.getpid()}.tmp"
    with gzip.open(tmp, "wt", compresslevel=3) as f:
        json.dump(obj, f)
    os.replace(tmp, p)
