"""Cache of spec-only TLC results (they depend on spec/*.tla, build/Extracted.tla and the
configuration, never on the implementation's behaviour)."""
import os
import gzip
import json

import tlc
from common import BUILD, sha

CACHE = os.path.join(BUILD, "cache")


def key(*parts):
    ext = os.path.join(BUILD, "Extracted.tla")
    return sha(tlc.spec_digest([ext] if os.path.exists(ext) else []), json.dumps(parts, sort_keys=True, default=str))


def get(k):
    p = os.path.join(CACHE, k + ".json.gz")
    if os.path.exists(p):
        try:
            with gzip.open(p, "rt") as f:
                return json.load(f)
        except Exception:  # noqa
            return None
    return None


def put(k, obj):
    os.makedirs(CACHE, exist_ok=True)
    p = os.path.join(CACHE, k + ".json.gz")
    tmp = p + f".{os.getpid()}.tmp"
    with gzip.open(tmp, "wt", compresslevel=3) as f:
        json.dump(obj, f)
    os.replace(tmp, p)
