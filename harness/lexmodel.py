"""Lexer level (L0): run the Lexer.tla configurations, replay their behaviours into the
implementation, adjudicate differences.  Used by C05 (tokenizer), C09, C10 (and C11/C12
through their own generator modules)."""
import os
import json

import tlc
import extract
from common import BUILD, sha

NL, TAB = "\n", "\t"

# alphabets: name -> (characters, MaxLen quick, MaxLen thorough)
ALPHABETS = {
    "general": (["a", "1", " ", TAB, NL, "\\", "/", "*", "<", ":", "=", '"'], 4, 5),
    "splice":  (["a", " ", NL, "\\", "?", "/", '"', "'", "*"], 4, 6),
    "splice2": (["a", NL, "\\", "?", "/"], 6, 7),
    "splicetab": (["\\", NL, TAB, '"', "a", "/"], 6, 7),
    "esc":     (['"', "\\", "?", "/", "a", "'"], 5, 6),
    "altcomment": (["/", "*", "<", ":", "a"], 7, 8),
    "alt":     (["?", "<", ">", ":", "%", "(", ")", "=", "/", "'", "!", "-", "a"], 4, 5),
    "ops":     (list("+-*/%<>=!&^~.?:;,#|"), 3, 4),
    "quote":   (["a", "\\", '"', "'", NL, "x", "0", "7", "n", "q", "L", "u", "8"], 4, 5),
    "tab":     ([TAB, " ", "a", NL, "/", "*"], 5, 7),
    "num":     (["0", "1", "8", "x", "b", "e", "p", ".", "+", "u", "l", "f", "a"], 4, 5),
}

INVARIANTS = ["TypeOK", "PosInv", "TileInv", "SpellInv", "BadLexInv", "Total", "NoCrash"]
PROPERTIES = ["Progress"]


def lexer_job(name, alpha, maxlen, dev, shard, nshards, invariants, export=True):
    inv = list(invariants) + (["ExportInv"] if export else [])
    cfg = tlc.cfg_text(
        constants=["Alpha <- cAlpha", f"MaxLen = {maxlen}", "Dev <- cDev", f"Shard = {shard}", f"NShards = {nshards}"],
        invariants=inv, properties=PROPERTIES if invariants else [])
    defs = {"cAlpha": tlc.tla_chars(alpha), "cDev": tlc.tla_set_str(dev)}
    return dict(name=f"{name}-{shard}", root="LexerMC", defs=defs, cfg=cfg, workers=1)


def run_config(cfgname, maxlen, dev, nshards=16, check=True, export=True, max_procs=16):
    """Returns (list of TLCResult, merged exports)."""
    alpha = ALPHABETS[cfgname][0]
    jobs = [lexer_job(f"lex-{cfgname}-{'dev' if dev else 'intent'}", alpha, maxlen, dev, s, nshards,
                      INVARIANTS if check else [], export) for s in range(nshards)]
    results = tlc.run_many(jobs, max_procs=max_procs)
    exports = []
    for r in results:
        exports.extend(r.exports)
        r.exports = []
    return results, exports


def norm_export(rec):
    rec.setdefault("sites", [])
    """export record -> (text, tokens[(type,text,line,col,end)], diags sorted)"""
    text = "".join(rec["src"])
    toks = [(t["t"], "".join(t["x"]), t["l"], t["c"], t["e"]) for t in rec["toks"]]
    diags = sorted((d["code"], d["lv"], tuple(tuple(h) for h in d["hl"])) for d in rec["diags"])
    return text, toks, diags, rec["mode"]


def norm_observed(obs):
    toks = [(t[0], t[1], t[2], t[3], t[4]) for t in obs["tokens"]]
    diags = sorted((d[0], d[1], tuple(tuple(h) for h in d[2])) for d in obs["diags"])
    return toks, diags, obs["exc"]


# ---------------------------------------------------------------------------
import cache


class Stat:
    def __init__(self, d):
        self.__dict__.update(d)


def cached_config(cfgname, maxlen, dev=(), check=True):
    """(stats: list of Stat(distinct, generated, wall, ok, violated, error), exports, was_cached)"""
    dev = sorted(dev)
    k = cache.key("lexcfg", cfgname, ALPHABETS[cfgname][0], maxlen, dev, check, INVARIANTS, PROPERTIES)
    c = cache.get(k)
    if c is not None:
        return [Stat(s) for s in c["stats"]], c["exports"], True
    results, exports = run_config(cfgname, maxlen, set(dev), check=check)
    stats = [dict(distinct=r.distinct, generated=r.generated, wall=r.wall, ok=r.ok, violated=r.violated,
                  error=r.error, stdout_path=r.stdout_path) for r in results]
    if all(r.ok for r in results):
        cache.put(k, dict(stats=stats, exports=exports))
    return [Stat(s) for s in stats], exports, False
