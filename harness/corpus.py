"""Small hand-written corpus used by the driver-level checks (C04, C06, C08, C15, C16) -- the class of a
file (clean / notice / err / fatal) is what those models talk about.  The program-level families come
from Norm.tla (normgen.py)."""


def header42(fname="main.c", login="marvin", domain="student.42.fr",
             created="2024/01/01 10:00:00", updated="2024/01/02 11:30:00"):
    # stdheader.vim: margin 5, "/*" + 3 blanks + left text clipped and padded to 45 columns + 25-column art row + 3 blanks + "*/"
    art = ["        :::      ::::::::", "      :+:      :+:    :+:", "    +:+ +:+         +:+  ", "  +#+  +:+       +#+     ",
           "+#+#+#+#+#+   +#+        ", "     #+#    #+#          ", "    ###   ########.fr    "]

    def row(left, n):
        return "/*   " + left[:45].ljust(45) + art[n] + "   */"
    star = "/* " + "*" * 74 + " */"
    blank = "/* " + " " * 74 + " */"
    L = [
        star,
        blank,
        row("", 0),
        row(fname, 1),
        row("", 2),
        row(f"By: {login} <{login}@{domain}>", 3),
        row("", 4),
        row(f"Created: {created} by {login}", 5),
        row(f"Updated: {updated} by {login}", 6),
        blank,
        star,
    ]
    assert all(len(x) == 80 for x in L), L
    return "\n".join(L) + "\n"


CLEAN_C_BODY = """
#include <unistd.h>

static int\tft_add(int a, int b)
{
\tint\tres;

\tres = a + b;
\tif (res > 42)
\t\treturn (42);
\twhile (res < 0)
\t\tres++;
\treturn (res);
}

int\tmain(void)
{
\tft_add(1, 2);
\treturn (0);
}
"""

CLEAN_H_BODY = """
#ifndef {guard}
# define {guard}

# include <unistd.h>

# define FT_MAX 42

typedef struct s_point
{{
\tint\t\tx;
\tchar\t*name;
}}\tt_point;

int\t\tft_add(int a, int b);
char\t*ft_name(t_point *p);

#endif
"""


def guard_of(name):
    return name.upper().replace(".", "_")


def clean_c(name="main.c"):
    return header42(name) + CLEAN_C_BODY


def clean_h(name="point.h"):
    return header42(name) + CLEAN_H_BODY.format(guard=guard_of(name))


def notice_c(name="notice.c"):
    return header42(name) + CLEAN_C_BODY.replace("#include <unistd.h>\n", "#include <unistd.h>\n\nint\tg_count = 0;\n")


ERR_VARIANTS = {
    # key: (edit description, function text -> text)
    "trailing_space": lambda s: s.replace("\tres = a + b;\n", "\tres = a + b; \n"),
    "no_paren_return": lambda s: s.replace("\treturn (res);\n", "\treturn res;\n"),
    "space_indent": lambda s: s.replace("\tres = a + b;\n", "    res = a + b;\n"),
    "decl_assign": lambda s: s.replace("\tint\tres;\n", "\tint\tres = 0;\n"),
    "define_expr": lambda s: s.replace("#include <unistd.h>\n", "#include <unistd.h>\n\n#define FT_X 1 + 2\n"),
    "macro_lower": lambda s: s.replace("#include <unistd.h>\n", "#include <unistd.h>\n\n#define ft_x 1\n"),
    "for_loop": lambda s: s.replace("\twhile (res < 0)\n", "\tfor (;res < 0;)\n"),
    "op_spacing": lambda s: s.replace("res = a + b;", "res = a +b;"),
}


def err_many_c(name="err.c"):
    """one file with diagnostics of many different checks (spacing, return, indentation, declaration, control structure, operator,
    line length, global, comment in a function, empty line, too many instructions)"""
    s = clean_c(name)
    for v in ("trailing_space", "no_paren_return", "decl_assign", "for_loop"):
        s = ERR_VARIANTS[v](s)
    s = s.replace("#include <unistd.h>\n", "#include <unistd.h>\n\n/* " + "x" * 80 + " */\n\nint\tg_count = 0;\n")
    s = s.replace("\tres = a + b; \n", "\tres = a +b; \n\t/* here */\n\n\tres = 1; res = 2;\n")
    return s


def err_c(name="err.c", variant="trailing_space"):
    return ERR_VARIANTS[variant](clean_c(name))


FATAL_VARIANTS = {
    "directive": lambda s: s.replace("#include <unistd.h>\n", "#include <unistd.h>\n#foo bar\n"),
    "paren": lambda s: s.replace("\tft_add(1, 2);\n", "\tft_add((1, 2);\n"),
    "garbage": lambda s: s.replace("\tft_add(1, 2);\n", "\t) ) )\n\tft_add(1, 2);\n"),
    "if_expr": lambda s: s.replace("#include <unistd.h>\n", "#include <unistd.h>\n#if (1\n#endif\n"),
}


def fatal_c(name="fatal.c", variant="directive"):
    return FATAL_VARIANTS[variant](clean_c(name))


def deep_c(name="deep.c", depth=95):
    """an erroneous file (one over-long line) whose expression nests `depth` parentheses: its analysis needs
    a deep Python recursion, so it shows whether an earlier file left the process recursion limit lowered"""
    expr = "(" * depth + "a" + ")" * depth
    return clean_c(name).replace("\tres = a + b;\n", f"\tres = {expr};\n")
