"""Concretisation: spell the slots of abstract items.  Structure, tabs, spaces, alignment and widths come
from the specification; this module only chooses identifiers, constants and filler text of the class and
width the specification asked for (seeded)."""
import random
import string

KEYWORDS = {"auto", "break", "case", "char", "const", "continue", "default", "do", "double", "else", "enum", "extern",
            "float", "for", "goto", "if", "int", "long", "register", "return", "short", "signed", "sizeof", "static",
            "struct", "switch", "typedef", "union", "unsigned", "void", "volatile", "while", "inline", "NULL", "restrict",
            "environ", "defined", "include", "define", "ifdef", "ifndef", "endif", "undef", "elif", "pragma", "error",
            "warning", "line", "import", "__attribute__"}

LOW = string.ascii_lowercase
TYPES_BY_W = {3: ["int"], 4: ["char", "long", "void"], 5: ["short", "float"], 6: ["double", "size_t", "t_list", "t_data"],
              7: ["ssize_t", "t_point"], 8: ["t_vector", "unsigned"], 9: ["long long"], 11: ["struct s_pt", "t_hash_table"],
              12: ["unsigned int"], 13: ["unsigned long", "unsigned char"], 14: ["unsigned short"]}


class Speller:
    def __init__(self, seed=0, style="default"):
        self.r = random.Random(seed)
        self.memo = {}
        self.style = style
        self.guard = "FILE_H"
        self.syms = []

    def ident(self, w, first=LOW, rest=LOW + string.digits + "_"):
        for _ in range(100):
            s = self.r.choice(first) + "".join(self.r.choice(rest) for _ in range(w - 1))
            if s not in KEYWORDS and not s.endswith("_") or w == 1 and s not in KEYWORDS:
                if s not in KEYWORDS:
                    return s
        return "q" * w

    def named(self, cls, w, n):
        key = (cls, w, n)
        if key not in self.memo:
            used = set(self.memo.values())
            for _ in range(200):
                if cls == "g":
                    s = "g_" + self.ident(max(w - 2, 1))
                elif cls == "m":
                    s = self.ident(w, string.ascii_uppercase, string.ascii_uppercase + string.digits + "_")
                elif cls in ("f",):
                    s = ("ft_" + self.ident(w - 3)) if w > 4 else self.ident(w)
                else:
                    s = self.ident(w)
                if s not in used and s.lower() not in KEYWORDS:
                    break
            self.memo[key] = s
        return self.memo[key]

    def number(self, w):
        r = self.r
        forms = {
            1: lambda: r.choice("0123456789"),
            2: lambda: r.choice(["42", "07", "1u", "9L", "10", "0U"]),
            3: lambda: r.choice(["0x7", "128", "1.5", ".5f", "1e3", "017", "2UL", "0b1"]),
            4: lambda: r.choice(["0xff", "1024", "0x1F", "3.14", "1e-3", "10UL", "0b10", "2.5f", "077u"]),
            5: lambda: r.choice(["0xb3b", "65535", "1.5e3", "0x7fL", "10ull", "0B101"]),
            6: lambda: r.choice(["0xb3ba", "0XFFFF", "100000", "1.5e+3", "0x1p-2", "255ULL", "0xabcd"]),
        }
        if w in forms:
            return forms[w]()
        return "1" * w

    def string(self, w):
        body = "".join(self.r.choice("abc xyz%d,.;:+-(){}") for _ in range(max(w - 2, 0)))
        return '"' + body + '"'

    def char(self, w):
        if w == 3:
            return "'" + self.r.choice("abcxyz019 +-*/%;{}") + "'"
        if w == 4:
            return "'\\" + self.r.choice("nt0\\'\"rabfv") + "'"
        return "'\\x" + "".join(self.r.choice("0123456789abcdef") for _ in range(w - 4)) + "'"

    def text(self, w):
        words = ["the", "norm", "is", "a", "set", "of", "rules", "todo", "x", "fix", "me", "libft", "42"]
        out = ""
        while len(out) < w:
            out += self.r.choice(words) + " "
        out = out[:w]
        return out[:-1] + "x" if out.endswith(" ") else out

    def typ(self, w):
        return self.r.choice(TYPES_BY_W.get(w, ["int"]))

    def item(self, it):
        s = it["s"]
        if s in ("L", "T"):
            return it["x"]
        w, n = it["w"], it.get("n", 0)
        if s in ("v", "p", "f", "g", "m", "fld", "tag"):
            return self.named(s, w, n)
        if s == "sym":
            return self.syms[n - 1]
        if s == "sp":
            return " " * w
        if s == "stars":
            return "*" * w
        if s == "hfile":
            return self.ident(max(w - 2, 1), LOW + string.digits, LOW + string.digits + "_-.")[: max(w - 2, 1)] + (".c" if w >= 3 else "")
        if s == "login":
            key = ("login", w)
            if key not in self.memo:
                self.memo[key] = self.ident(w, LOW, LOW + string.digits + "-_")
            return self.memo[key]
        if s == "domain":
            key = ("domain", w)
            if key not in self.memo:
                base = self.ident(max(w - 3, 1), LOW, LOW + string.digits + "-")
                self.memo[key] = (base + "." + "fr")[:w] if w >= 4 else base[:w]
                if len(self.memo[key]) < w:
                    self.memo[key] = self.memo[key] + "x" * (w - len(self.memo[key]))
            return self.memo[key]
        if s == "date":
            r = self.r
            return f"{r.randint(1970, 2099):04d}/{r.randint(0, 99):02d}/{r.randint(0, 99):02d} {r.randint(0, 99):02d}:{r.randint(0, 99):02d}:{r.randint(0, 99):02d}"
        if s in ("vbad", "fbad"):
            key = (s, w, n)
            if key not in self.memo:
                base = self.ident(w - 1)
                self.memo[key] = base[:1] + self.r.choice(string.ascii_uppercase) + base[1:]
            return self.memo[key]
        if s == "guard":
            return self.guard
        if s == "txt":
            return self.text(w)
        if s in ("stag", "utag", "etag", "tname"):
            pre = {"stag": "s_", "utag": "u_", "etag": "e_", "tname": "t_"}[s]
            key = (s, w, n)
            if key not in self.memo:
                self.memo[key] = pre + self.ident(max(w - 2, 1))
            return self.memo[key]
        if s == "econst":
            return self.named("m", w, 100 + n)
        if s == "inc":
            return self.ident(w, LOW, LOW + "_")
        if s == "num":
            return self.number(w)
        if s == "str":
            return self.string(w)
        if s == "chr":
            return self.char(w)
        if s == "ty":
            return self.typ(w)
        raise ValueError(f"unknown slot class {s}")

    def render(self, items):
        return "".join(self.item(it) for it in items)
