"""Concretisation: spell the slots of abstract items.  Structure, tabs, spaces, alignment and widths come
from the specification; this module only chooses identifiers, constants and filler text of the class and
width the specification asked for.

Three independent seeds so that the relational properties can vary one thing at a time:
  ident_seed   identifiers (C18: consistent renaming -- same class, same length)
  quoted_seed  text inside comments, strings and character constants (C17) + its filler class
  other_seed   numeric constants, type names, include paths, dates
Spelling is a function of (seed, abstract line, position in the line, occurrence number of that line), never of
how much was spelled before: identical abstract lines are spelled identically wherever they stand (C19).
"""
import random
import string
import hashlib

KEYWORDS = {"auto", "break", "case", "char", "const", "continue", "default", "do", "double", "else", "enum", "extern",
            "float", "for", "goto", "if", "int", "long", "register", "return", "short", "signed", "sizeof", "static",
            "struct", "switch", "typedef", "union", "unsigned", "void", "volatile", "while", "inline", "NULL", "restrict",
            "environ", "defined", "include", "define", "ifdef", "ifndef", "endif", "undef", "elif", "pragma", "error",
            "warning", "line", "import", "__attribute__", "main"}

LOW = string.ascii_lowercase
UP = string.ascii_uppercase
TYPES_BY_W = {3: ["int"], 4: ["char", "long", "void"], 5: ["short", "float"], 6: ["double", "size_t", "t_list", "t_data"],
              7: ["ssize_t", "t_point"], 8: ["t_vector", "unsigned"], 9: ["long long"], 11: ["struct s_pt", "t_hash_table"],
              12: ["unsigned int"], 13: ["unsigned long", "unsigned char"], 14: ["unsigned short"]}

# filler classes for the inside of comments / strings / character constants: same displayed width, no delimiter,
# no backslash, no line break (C17)
FILLER = {
    "letters": LOW + " ",
    "operators": "+-*/%<>=!&|^~ ",
    "braces": "{}[]() ",
    "semis": ";,;, ",
    "digits": "0123456789 ",
    "qmarks": "?x?y ",
    "mixed": LOW + "+-;{}(),=<>#&|0123456789 ",
    "digraphs": "<%:>x ",            # <% %> <: :> %: : translated by the tokenizer even inside comments and literals
}
FILLER_WORDS = {
    "keywords": ["if", "for", "return", "int", "while", "else", "goto", "switch", "typedef", "struct", "void", "sizeof", "break"],
    "include": ["#include", "<x.h>", "#define", "#if", "#endif", "\"y.h\"", "# include"],
    "trigraphs": ["??=", "??(", "??)", "??<", "??>", "??!", "??-", "a", "?"],      # not ??/ (a backslash) and not ??' (a quote)
}
FILLER_CLASSES = list(FILLER) + list(FILLER_WORDS) + ["quote"]


def _h(*parts):
    return hashlib.sha256(repr(parts).encode()).hexdigest()


class Speller:
    def __init__(self, seed=0, ident_seed=None, quoted_seed=None, other_seed=None, quoted_class="letters", style="default"):
        self.ident_seed = seed if ident_seed is None else ident_seed
        self.quoted_seed = seed if quoted_seed is None else quoted_seed
        self.other_seed = seed if other_seed is None else other_seed
        self.quoted_class = quoted_class
        self.style = style
        self.memo = {}
        self.used = set()
        self.guard = "FILE_H"
        self.syms = []
        self._salt = ""
        self._pos = 0

    # ---------------------------------------------------------------- identifiers (memoised by identity)
    def _ident(self, r, w, first=LOW, rest=LOW + string.digits + "_"):
        for _ in range(200):
            s = r.choice(first) + "".join(r.choice(rest) for _ in range(w - 1))
            if s.lower() not in KEYWORDS and s not in KEYWORDS and not (w > 1 and s.endswith("_") and self.style != "odd"):
                return s
        return "q" * w

    def named(self, cls, w, n):
        key = (cls, w, n)
        if key in self.memo:
            return self.memo[key]
        for attempt in range(300):
            r = random.Random(_h("id", self.ident_seed, cls, w, n, attempt))
            if cls == "g":
                s = "g_" + self._ident(r, max(w - 2, 1))
            elif cls == "m":
                s = self._ident(r, w, UP, UP + string.digits + "_")
            elif cls == "f":
                s = ("ft_" + self._ident(r, w - 3)) if w > 4 and r.random() < 0.6 else self._ident(r, w)
            else:
                s = self._ident(r, w)
            if self.style == "embed" and attempt < 40 and self.used and r.random() < 0.7:
                # adversarial renaming: build the name around a name already used in this file
                cands = [u for u in sorted(self.used) if 2 <= len(u) <= w - 2]
                if cands:
                    base = r.choice(cands)
                    base = base.upper() if cls == "m" else base.lower()
                    fill = w - len(base) - 1
                    pad = self._ident(r, fill, UP if cls == "m" else LOW, (UP if cls == "m" else LOW) + string.digits)
                    s = (base + "_" + pad) if r.random() < 0.5 else (pad + "_" + base)
                    if cls == "g":
                        s = "g_" + s[2:] if len(s) > 2 else s
                    s = s[:w]
            if self.style == "nearspecial" and attempt < 40:
                # names that are substrings / near misses of the few names the tool treats specially
                specials = ["environ", "defined", "__attribute__", "include", "typedef", "main", "sizeof", "return", "static", "NULL"]
                cands = sorted({w0[i:i + w] for w0 in specials for i in range(len(w0) - w + 1) if w <= len(w0)})
                cands = [c for c in cands if c[0].isalpha() or c[0] == "_"]
                if cands and cls in ("v", "p", "f", "fld", "g", "m"):
                    c0 = r.choice(cands)
                    s = c0.upper() if cls == "m" else (("g_" + c0[2:]) if cls == "g" else c0.lower())
            if self.style == "kwprefix" and attempt < 40 and cls in ("v", "p", "f", "fld") and w >= 4:
                pre = r.choice([k for k in ("int", "if", "for", "do", "return", "while", "else", "char", "void") if len(k) < w])
                s = (pre + self._ident(r, w - len(pre), LOW + "_", LOW + string.digits + "_"))[:w]
                if s.endswith("_"):
                    s = s[:-1] + "x"
            if len(s) == w and s not in self.used and s.lower() not in KEYWORDS and s not in KEYWORDS:
                break
        self.memo[key] = s
        self.used.add(s)
        return s

    def prefixed(self, cls, w, n):
        pre = {"stag": "s_", "utag": "u_", "etag": "e_", "tname": "t_"}[cls]
        key = (cls, w, n)
        if key not in self.memo:
            for attempt in range(100):
                r = random.Random(_h("id", self.ident_seed, cls, w, n, attempt))
                s = pre + self._ident(r, max(w - 2, 1))
                if s not in self.used:
                    break
            self.memo[key] = s
            self.used.add(s)
        return self.memo[key]

    # ---------------------------------------------------------------- per-position random streams
    def _r(self, stream_seed, tag):
        self._pos += 1
        return random.Random(_h(tag, stream_seed, self._salt, self._pos))

    def number(self, w):
        r = self._r(self.other_seed, "num")
        forms = {
            1: lambda: r.choice("0123456789"),
            2: lambda: r.choice(["42", "07", "1u", "9L", "10", "0U"]),
            3: lambda: r.choice(["0x7", "128", "1.5", ".5f", "1e3", "017", "2UL", "0b1"]),
            4: lambda: r.choice(["0xff", "1024", "0x1F", "3.14", "1e-3", "10UL", "0b10", "2.5f", "077u"]),
            5: lambda: r.choice(["0xb3b", "65535", "1.5e3", "0x7fL", "10ull", "0B101"]),
            6: lambda: r.choice(["0xb3ba", "0XFFFF", "100000", "1.5e+3", "0x1p-2", "255ULL", "0xabcd"]),
        }
        if w in forms:
            return forms[w]()
        return "".join(r.choice("123456789") for _ in range(w))

    def filler(self, w, avoid=""):
        r = self._r(self.quoted_seed, "quoted")
        cls = self.quoted_class
        if cls == "quote":
            alphabet = "'\" " + LOW
        elif cls in FILLER_WORDS:
            out = ""
            while len(out) < w:
                out += r.choice(FILLER_WORDS[cls]) + " "
            s = out[:w]
            alphabet = None
        else:
            alphabet = FILLER[cls]
        if alphabet is not None:
            s = "".join(r.choice(alphabet) for _ in range(w))
        s = "".join(c if c not in avoid else "x" for c in s)
        return s

    def string(self, w):
        return '"' + self.filler(max(w - 2, 0), avoid='"\\') + '"'

    def char(self, w):
        if w == 3:
            return "'" + self.filler(1, avoid="'\\").replace(" ", "a") + "'"
        r = self._r(self.quoted_seed, "chr")
        if w == 4:
            return "'\\" + r.choice("nt0\\'\"rabfv") + "'"
        return "'\\x" + "".join(r.choice("0123456789abcdef") for _ in range(w - 4)) + "'"

    def text(self, w):
        """comment text: no comment delimiter inside, does not start or end with a blank"""
        s = self.filler(w, avoid="\\")
        s = s.replace("*/", "*x").replace("/*", "/x").replace("//", "/x")
        if s.startswith((" ", "*", "/")):
            s = "x" + s[1:]
        if s.endswith((" ", "*")) and self.quoted_class != "operators":
            s = s[:-1] + "x"
        if s.endswith((" ", "*")):
            s = s[:-1] + "-"
        if self.quoted_class in ("operators", "mixed") and len(s) >= 2 and self._r(self.quoted_seed, "end").random() < 0.5:
            s = s[:-1] + "/"        # adversarial ending: the text touches the closing delimiter with a slash
            if s[-2] in "*/":       # ... without forming a delimiter itself
                s = s[:-2] + "-/"
        return s

    def typ(self, w):
        r = self._r(self.other_seed, "ty")
        return r.choice(TYPES_BY_W.get(w, ["int"]))

    # ---------------------------------------------------------------- items
    def item(self, it):
        s = it["s"]
        if s in ("L", "T"):
            return it["x"]
        w, n = it["w"], it.get("n", 0)
        if s in ("v", "p", "f", "g", "m", "fld", "tag"):
            return self.named(s, w, n)
        if s == "sym":
            return self.syms[n - 1]
        if s == "sp":
            return " " * w
        if s == "stars":
            return "*" * w
        if s == "hfile":
            r = self._r(self.other_seed, "hfile")
            base = self._ident(r, max(w - 2, 1), LOW + string.digits, LOW + string.digits + "_-.")
            return (base + ".c")[:w] if w >= 3 else base[:w]
        if s == "login":
            key = ("login", w)
            if key not in self.memo:
                self.memo[key] = self._ident(random.Random(_h("login", self.other_seed, w)), w, LOW, LOW + string.digits + "-_")
            return self.memo[key]
        if s == "domain":
            key = ("domain", w)
            if key not in self.memo:
                r = random.Random(_h("domain", self.other_seed, w))
                base = self._ident(r, max(w - 3, 1), LOW, LOW + string.digits + "-")
                d = (base + ".fr")[:w] if w >= 4 else base[:w]
                self.memo[key] = d + "x" * (w - len(d))
            return self.memo[key]
        if s == "date":
            r = self._r(self.other_seed, "date")
            return f"{r.randint(1970, 2099):04d}/{r.randint(0, 99):02d}/{r.randint(0, 99):02d} {r.randint(0, 99):02d}:{r.randint(0, 99):02d}:{r.randint(0, 99):02d}"
        if s in ("vbad", "fbad"):
            key = (s, w, n)
            if key not in self.memo:
                r = random.Random(_h("id", self.ident_seed, s, w, n))
                base = self._ident(r, w - 1)
                self.memo[key] = base[:1] + r.choice(UP) + base[1:]
            return self.memo[key]
        if s == "guard":
            return self.guard
        if s == "txt":
            return self.text(w)
        if s in ("stag", "utag", "etag", "tname"):
            return self.prefixed(s, w, n)
        if s == "econst":
            return self.named("m", w, 100 + n)
        if s == "inc":
            return self._ident(self._r(self.other_seed, "inc"), w, LOW, LOW + "_")
        if s == "num":
            return self.number(w)
        if s == "str":
            return self.string(w)
        if s == "chr":
            return self.char(w)
        if s == "ty":
            return self.typ(w)
        raise ValueError(f"unknown slot class {s}")

    def render(self, items, salt=""):
        self._salt = salt
        self._pos = 0
        return "".join(self.item(it) for it in items)
