"""Evidence files (schema: /root/.vp/EVIDENCE.schema.json) and the verdict protocol."""
import os
import sys
import json

from common import EVID, seed, ensure_dirs, write_replay, Timer

FINDINGS_FILE = os.path.join(os.path.dirname(EVID), "known_findings.json")


def load_findings():
    with open(FINDINGS_FILE) as f:
        return json.load(f)["findings"]


def known_keys(prop=None):
    return {f["key"]: f for f in load_findings()
            if f["status"] == "known" and (prop is None or prop in f.get("properties", [f["property"]]))}


class Run:
    """Collects what one check run did and turns it into exit status + evidence."""

    def __init__(self, pid, tier):
        self.pid = pid
        self.tier = tier
        self.timer = Timer()
        self.violations = []        # replay paths
        self.known_hit = {}         # key -> count
        self.drift = []             # soft mismatches (never an alarm)
        self.cov = dict(states=0, transitions=0, traces_validated_against_impl=0, samples=[],
                        evaluations=0, distinct_nontrivial=0, rule="", exhaustive=True,
                        tlc_runs=[], spec_drift=0, known_findings_hit={})
        self.assumptions = []
        self.machinery_error = None
        self._distinct = set()

    # ---- accounting
    def add_tlc(self, name, results, cached=False):
        if not isinstance(results, (list, tuple)):
            results = [results]
        st = sum(r.distinct for r in results)
        tr = sum(r.generated for r in results)
        self.cov["states"] += st
        self.cov["transitions"] += tr
        self.cov["tlc_runs"].append(dict(name=name, states=st, transitions=tr, cached=cached,
                                         wall_s=round(max((r.wall for r in results), default=0), 1)))

    def case(self, key=None, nontrivial=True):
        self.cov["evaluations"] += 1
        if nontrivial and key is not None:
            self._distinct.add(key)

    def sample(self, s, limit=6):
        if len(self.cov["samples"]) < limit:
            self.cov["samples"].append(s)

    def validated(self, n=1):
        self.cov["traces_validated_against_impl"] += n

    # ---- outcomes
    def violation(self, record):
        record = dict(record)
        record.setdefault("property", self.pid)
        self.nviol = getattr(self, "nviol", 0) + 1
        if self.nviol > 40:          # enough replay files: keep counting, stop writing
            return
        path = write_replay(self.pid, record)
        if path not in self.violations:
            self.violations.append(path)
            print(f"VIOLATION property={self.pid} replay={path}", flush=True)

    def known(self, key, what=None):
        if key not in self.known_hit:
            f = known_keys().get(key, {})
            print(f"KNOWN-FINDING: property={self.pid} {key}: {what or f.get('what', '')}", flush=True)
        self.known_hit[key] = self.known_hit.get(key, 0) + 1

    def soft(self, what):
        self.drift.append(what)
        if len(self.drift) <= 5:
            print(f"spec-drift (informational, not an alarm): {what}", file=sys.stderr)

    def machinery(self, msg):
        self.machinery_error = msg
        print(f"MACHINERY FAILURE: {msg}", file=sys.stderr)

    # ---- finish
    def finish(self, level="model_checking"):
        ensure_dirs()
        self.cov["distinct_nontrivial"] = len(self._distinct)
        self.cov["spec_drift"] = len(self.drift)
        self.cov["spec_drift_examples"] = self.drift[:5]
        self.cov["known_findings_hit"] = self.known_hit
        if self.cov["states"] == 0:
            self.cov.pop("states")
            self.cov.pop("transitions")
        ev = dict(property_id=self.pid, tier=self.tier, seed=seed(), level=level, coverage=self.cov,
                  assumptions=self.assumptions, wall_s=self.timer.s(), violations=max(len(self.violations), getattr(self, "nviol", 0)))
        if self.machinery_error:
            ev["machinery_error"] = self.machinery_error
        with open(os.path.join(EVID, f"{self.pid}.json"), "w") as f:
            json.dump(ev, f, indent=1, default=str)
        if self.machinery_error:
            return 2
        return 1 if self.violations else 0
