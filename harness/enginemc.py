"""The design of the statement / scope engine model-checked by TLC (EngineMC.tla): every well-bracketed sequence of
statement events up to a bound; invariants DepthMatches, DepthBack, LinesConserved, FuncLinesExact, GlobalLines,
NamesMatch, WellFormed.  Spec-only (cached)."""
import tlc
import cache
import lexmodel

INVS = ["WellFormed", "DepthMatches", "DepthBack", "LinesConserved", "FuncLinesExact", "GlobalLines", "NamesMatch", "ExportInv"]
BOUNDS = {"quick": (12, 3), "thorough": (17, 4)}


def cached(tier):
    maxev, maxopen = BOUNDS[tier]
    k = cache.key("enginemc", maxev, maxopen)
    c = cache.get(k)
    if c is not None:
        return [lexmodel.Stat(s) for s in c["stats"]], c.get("exports", []), True
    cfg = tlc.cfg_text(spec="ESpec", constants=[f"MaxEvents = {maxev}", f"MaxOpen = {maxopen}"], invariants=INVS, extra="VIEW EView")
    r = tlc.run(name=f"enginemc-{maxev}-{maxopen}", root="EngineMC", defs={}, cfg=cfg, workers=8, timeout=3000, heap="8g")
    stats = [dict(distinct=r.distinct, generated=r.generated, wall=r.wall, ok=r.ok, violated=r.violated, error=r.error,
                  stdout_path=r.stdout_path)]
    exports = r.exports
    # the exhaustive run exports one behaviour per distinct VIEW state; random behaviours add variety of paths (fixed seeds: the
    # universe does not depend on VERIF_SEED)
    nsim = 4000 if tier == "quick" else 40000
    rs = tlc.run_many([dict(name=f"enginemc-sim-{j}", root="EngineMC", defs={}, cfg=cfg.replace("VIEW EView", ""), workers=1, timeout=1800,
                            simulate=f"num={nsim // 8}", depth=maxev + 1, seed=1000 + j) for j in range(8)])
    for x in rs:
        exports = exports + x.exports
        stats.append(dict(distinct=x.distinct, generated=x.generated, wall=x.wall, ok=x.ok, violated=x.violated, error=x.error,
                          stdout_path=x.stdout_path))
    if r.ok and all(x.ok for x in rs):
        cache.put(k, dict(stats=stats, exports=exports))
    return [lexmodel.Stat(s) for s in stats], exports, False


def run_into(R, tier, replay=False):
    try:
        stats, exports, was_cached = cached(tier)
    except Exception as e:  # noqa
        R.machinery(f"TLC EngineMC: {e}")
        return
    maxev, maxopen = BOUNDS[tier]
    R.add_tlc(f"EngineMC/MaxEvents={maxev}/MaxOpen={maxopen}", stats, cached=was_cached)
    bad = [x for x in stats if not x.ok]
    b = bad[0] if bad else stats[0]
    if not b.ok:
        if b.violated:
            R.violation(dict(kind="tlc_invariant", module="EngineMC", invariant=b.violated, detail=(b.error or "")[:3000],
                             note="the engine design (Engine.tla, bound to the code by EngineTrace.tla) breaks an invariant"))
        else:
            R.machinery(f"TLC EngineMC: {b.error}")
    if replay:
        replay_behaviours(R, exports)


# ------------------------------------------------------------------------------------------------ direction A
STRUCT = {"IsFuncDeclaration", "IsBlockStart", "IsBlockEnd", "IsControlStatement", "IsUserDefinedType", "IsEmptyLine", "IsComment",
          "IsPreprocessorStatement"}


def concretise(log):
    """event sequence of EngineMC -> C text, one statement per event (indentation follows the model's chain)"""
    out = []
    depth = 0
    nfun = 0
    intype = False
    for i, e in enumerate(log):
        r, nl = e["rule"], e["nl"]
        before = len(log[i - 1]["names"]) - 1 if i else 0
        tabs = "\t" * before
        if r == "IsEmptyLine":
            t = "\n"
        elif r == "IsComment":
            t = tabs + "/* c */\n"
        elif r == "IsPreprocessorStatement":
            t = "#define X%d 1\n" % i
        elif r == "IsFuncDeclaration":
            nfun += 1
            t = "int\tf%d(void)\n" % nfun
        elif r == "IsUserDefinedType":
            intype = True
            t = ("enum e_x%d\n" if e["isEnum"] else "struct s_x%d\n") % i
        elif r == "IsBlockStart":
            t = "\t" * max(before - 1, 0) + "{\n"
        elif r == "IsBlockEnd":
            closing_type = log[i - 1]["names"][-1] in ("UserDefinedType", "UserDefinedEnum")
            t = "\t" * max(before - 1, 0) + ("};\n" if closing_type else "}\n")
            if closing_type:
                intype = False
        elif r == "IsControlStatement":
            t = tabs + "while (x)\n" + (tabs + "\t;\n" if nl == 2 else "")
        elif r == "IsVarDeclaration":
            enum = log[i - 1]["names"][-1] == "UserDefinedEnum"
            t = tabs + ("A%d,\n" % i if enum else "int\ta%d;\n" % i)
        else:
            t = tabs + ("x = 1;\n" if nl == 1 else "x = f(1,\n" + tabs + "\t\t2);\n")
        out.append(t)
    return "".join(out)


def _replay_one(rec):
    import observe
    log = rec["log"]
    text = concretise(log)
    o = observe.engine_trace(text, "engine.c")
    evs = [e for e in o["events"]]
    if o["exc"] or o["fatal"] or len(evs) != len(log):
        return dict(ok=False, why=f"exc={o['exc']} fatal={o['fatal']} events {len(evs)} != {len(log)}", text=text,
                    rules=[e["rule"] for e in evs])
    for i, (m, e) in enumerate(zip(log, evs), start=1):
        mr = m["rule"] if m["rule"] in STRUCT else "OTHER"
        er = e["rule"] if e["rule"] in STRUCT else "OTHER"
        names = [c["name"] for c in e["after"]]
        multi = [c["multi"] for c in e["after"]]
        if mr != er or names != list(m["names"]) or multi != list(m["multi"]) or e["nl"] != m["nl"] or e["lines"] != list(m["lines"])[-1]:
            return dict(ok=False, why=f"event {i}: model {mr} nl={m['nl']} {list(m['names'])} {list(m['multi'])} / code {e['rule']} nl={e['nl']} {names} {multi} lines={e['lines']} (model lines {list(m['lines'])})",
                        text=text, event=i)
    return dict(ok=True)


def replay_behaviours(R, exports):
    import driverprops
    seen = set()
    recs = []
    for rec in exports:
        key = tuple((e["rule"], e["nl"], e["isEnum"]) for e in rec["log"])
        if key not in seen:
            seen.add(key)
            recs.append(rec)
    for rec, w in zip(recs, driverprops.pool_map_shared(_replay_one, recs)):
        R.case(("engine-behaviour", tuple((e["rule"], e["nl"]) for e in rec["log"])))
        if w["ok"]:
            R.validated()
        else:
            R.violation(dict(kind="engine_behaviour", why=w["why"], text=w.get("text"), event=w.get("event"),
                             note="a behaviour of EngineMC.tla replayed into Registry.run: the scope chain after some statement is not the "
                                  "model's (names, multi-line flags, line breaks consumed)"))
    R.cov["engine_behaviours_replayed"] = len(recs)
