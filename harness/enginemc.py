"""The design of the statement / scope engine model-checked by TLC (EngineMC.tla): every well-bracketed sequence of
statement events up to a bound; invariants DepthMatches, DepthBack, LinesConserved, FuncLinesExact, GlobalLines,
NamesMatch, WellFormed.  Spec-only (cached)."""
import tlc
import cache
import lexmodel

INVS = ["WellFormed", "DepthMatches", "DepthBack", "LinesConserved", "FuncLinesExact", "GlobalLines", "NamesMatch"]
BOUNDS = {"quick": (12, 3), "thorough": (17, 4)}


def cached(tier):
    maxev, maxopen = BOUNDS[tier]
    k = cache.key("enginemc", maxev, maxopen)
    c = cache.get(k)
    if c is not None:
        return [lexmodel.Stat(s) for s in c["stats"]], [], True
    cfg = tlc.cfg_text(spec="ESpec", constants=[f"MaxEvents = {maxev}", f"MaxOpen = {maxopen}"], invariants=INVS, extra="VIEW EView")
    r = tlc.run(name=f"enginemc-{maxev}-{maxopen}", root="EngineMC", defs={}, cfg=cfg, workers=8, timeout=3000, heap="8g")
    stats = [dict(distinct=r.distinct, generated=r.generated, wall=r.wall, ok=r.ok, violated=r.violated, error=r.error,
                  stdout_path=r.stdout_path)]
    if r.ok:
        cache.put(k, dict(stats=stats))
    return [lexmodel.Stat(s) for s in stats], [], False


def run_into(R, tier):
    try:
        stats, _, was_cached = cached(tier)
    except Exception as e:  # noqa
        R.machinery(f"TLC EngineMC: {e}")
        return
    maxev, maxopen = BOUNDS[tier]
    R.add_tlc(f"EngineMC/MaxEvents={maxev}/MaxOpen={maxopen}", stats, cached=was_cached)
    b = stats[0]
    if not b.ok:
        if b.violated:
            R.violation(dict(kind="tlc_invariant", module="EngineMC", invariant=b.violated, detail=(b.error or "")[:3000],
                             note="the engine design (Engine.tla, bound to the code by EngineTrace.tla) breaks an invariant"))
        else:
            R.machinery(f"TLC EngineMC: {b.error}")
