"""Norm level (L2): run Norm.tla (simulation / exhaustive), render the exported abstract programs."""
import os
import json

import tlc
import cache
import corpus
import lexmodel
from concretise import Speller

INV = ["IndentIsDepth", "DepthZeroAtTop", "WidthOK", "BodyOK", "Feasible", "ExportInv"]


def consts(maxfuncs, maxbody, maxdepth, exprlevel, sim, kind, withviol):
    return [f"MaxFuncs = {maxfuncs}", f"MaxBody = {maxbody}", f"MaxDepth = {maxdepth}", f"ExprLevel = {exprlevel}",
            f"Sim = {'TRUE' if sim else 'FALSE'}", f'FileKind = "{kind}"', f"WithViol = {'TRUE' if withviol else 'FALSE'}"]


def simulate(name, n, seed, kind="c", maxfuncs=5, maxbody=25, maxdepth=3, exprlevel=2, withviol=False, procs=16, depth=400):
    """n behaviours, sharded over procs TLC processes with different seeds"""
    per = max(1, n // procs)
    jobs = []
    for j in range(procs):
        cfg = tlc.cfg_text(spec="VSpec" if withviol else "Spec", constants=consts(maxfuncs, maxbody, maxdepth, exprlevel, True, kind, withviol),
                           invariants=INV + (["OneViolationInv"] if withviol else ["EngineAgrees"]))
        jobs.append(dict(name=f"{name}-{j}", root="ViolMC" if withviol else "NormMC", defs={}, cfg=cfg, workers=1, timeout=1800,
                         simulate=f"num={per}", depth=depth, seed=seed * 1000 + j))
    rs = tlc.run_many(jobs)
    exports = []
    for r in rs:
        exports.extend(r.exports)
        r.exports = []
    return rs, exports


def exhaustive(name, kind="c", maxfuncs=1, maxbody=5, maxdepth=2, withviol=False, selmod=1):
    """every derivation up to the bounds; selmod > 1: all are checked by TLC, a deterministic 1-in-selmod selection is exported"""
    sel = selmod > 1 and not withviol
    cfg = tlc.cfg_text(spec="VSpec" if withviol else "Spec",
                       constants=consts(maxfuncs, maxbody, maxdepth, 0, False, kind, withviol) + ([f"XSelMod = {selmod}"] if sel else []),
                       invariants=INV + (["OneViolationInv"] if withviol else ["EngineAgrees"]))
    r = tlc.run(name=name, root="ViolMC" if withviol else ("NormSelMC" if sel else "NormMC"), defs={}, cfg=cfg, workers=16, timeout=3000)
    return [r], r.exports


def render(rec, seed=0, name=None, prog_key="prog", speller=None, salt_by="content"):
    """abstract program -> (file name, text, line map: abstract line index -> first text line)"""
    import hashlib
    sp = speller or Speller(seed)
    kind = rec["kind"]
    name = name or ("test." + kind)
    sp.guard = corpus.guard_of(name)
    sp.syms = ["".join(x) for x in rec.get("syms", [])]
    sp.used.update(x for x in sp.syms if x)
    sp.used.add(sp.guard)
    out = []
    linemap = []
    prog = rec[prog_key]
    seen = {}
    nline = 1
    for idx, ln in enumerate(prog):
        linemap.append(nline)
        if salt_by == "index":
            salt = f"line{idx}"
        else:
            key = hashlib.sha1(json.dumps(ln, sort_keys=True).encode()).hexdigest()
            occ = seen.get(key, 0)
            seen[key] = occ + 1
            salt = f"{key}:{occ}"
        if ln["k"] == "header42":
            t = corpus.header42(name)
        elif ln["k"] == "empty":
            t = "\n"
        elif ln["k"] == "h_slashslash":
            x = sp.render(ln["items"], salt)
            t = "// " + x[3:-3].rstrip() + "\n"
        elif ln["k"] == "h_oneblock":
            x = sp.render(ln["items"], salt)
            j = [y["k"] for y in prog].index("h_oneblock")
            n = sum(1 for y in prog if y["k"] == "h_oneblock")
            i = idx - j
            t = ("/* " if i == 0 else "   ") + x[3:-3] + (" */" if i == n - 1 else "   ").rstrip() + "\n"
        elif ln["k"] == "comment" and ln["st"] == "IsComment3":
            sp._salt, sp._pos = salt, 0
            t = "/*\n** " + sp.text(18) + "\n*/\n"
        else:
            t = sp.render(ln["items"], salt) + "\n"
        out.append(t)
        nline += t.count("\n")
    return name, "".join(out), linemap
