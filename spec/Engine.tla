------------------------------- MODULE Engine -------------------------------
(***************************************************************************)
(* The statement / scope engine of norminette (Registry.run,               *)
(* Context.update, IsBlockStart, IsBlockEnd, IsControlStatement,           *)
(* IsFuncDeclaration, IsUserDefinedType) as an IMPLEMENTATION-SHAPED state *)
(* machine over statement EVENTS.  One event = one iteration of the main   *)
(* loop of Registry.run that matched a primary rule: the rule, how many    *)
(* NEWLINE tokens the statement holds, and the few token-level facts the   *)
(* scope logic looks at (logged by the harness next to the event, so the   *)
(* trace specification does not have to guess them).                       *)
(*                                                                         *)
(* Used by EngineTrace.tla (conformance direction B for the engine): the   *)
(* scope chain the implementation reports after every statement must be    *)
(* the one this machine computes, and the invariants below are evaluated   *)
(* at every step of every recorded execution.                              *)
(***************************************************************************)
EXTENDS Naturals, Integers, Sequences, FiniteSets, TLC

Trivia == {"IsEmptyLine", "IsComment", "IsPreprocessorStatement"}
Openers == {"IsControlStatement", "IsFuncDeclaration", "IsUserDefinedType"}

(* a scope: [name, multi, instr, lines] ; the chain is a sequence, bottom = GlobalScope *)
Sc(n, m) == [name |-> n, multi |-> m, instr |-> 0, lines |-> 0]
GlobalChain == << Sc("GlobalScope", FALSE) >>
NoSub == [kind |-> "none", sc |-> Sc("", FALSE)]
Inner(n, m) == [kind |-> "inner", sc |-> Sc(n, m)]
Outer == [kind |-> "outer", sc |-> Sc("", FALSE)]

Top(ch) == ch[Len(ch)]
SetTop(ch, s) == [ch EXCEPT ![Len(ch)] = s]
(* Scope.outer(): leave the scope, its lines are added to the parent *)
Leave(ch) == IF Len(ch) <= 1 THEN ch
             ELSE LET p == SubSeq(ch, 1, Len(ch) - 1) IN [p EXCEPT ![Len(p)].lines = @ + Top(ch).lines]

TransferLines(ch) == IF Len(ch) <= 1 THEN ch ELSE [ch EXCEPT ![Len(ch) - 1].lines = @ + Top(ch).lines]
Drop(ch) == IF Len(ch) <= 1 THEN ch ELSE SubSeq(ch, 1, Len(ch) - 1)

(* ---- what the primary rule does to (chain, sub) BEFORE Context.update -------------------------------------- *)
(* IsBlockStart: walk the history backwards over trivia (each costs a line); the previous significant statement *)
(* decides: an opener whose scope has no line yet -> the current scope becomes multi-line; otherwise a new scope *)
RECURSIVE BlockStartWalk(_, _, _)
BlockStartWalk(hist, i, lines) ==
    IF i < 1 THEN [found |-> FALSE, item |-> "", lines |-> lines]
    ELSE IF hist[i] \in Trivia THEN BlockStartWalk(hist, i - 1, lines - 1)
    ELSE [found |-> TRUE, item |-> hist[i], lines |-> lines]

RuleEffect(ch, hist, ev) ==
    (* ch already carries instr+1 of the statement; lines are added by CheckLineCount AFTER the primary ran *)
    LET cur == Top(ch) IN
    CASE ev.rule = "IsFuncDeclaration" ->
            [ch |-> ch, sub |-> IF ev.nextLBrace THEN Inner("Function", FALSE) ELSE NoSub]
      [] ev.rule = "IsBlockStart" ->
            LET w == BlockStartWalk(hist, Len(hist), cur.lines) IN
            IF ~w.found THEN [ch |-> ch, sub |-> NoSub]
            ELSE IF w.item \in Openers /\ w.lines < 1
                 THEN [ch |-> SetTop(ch, [cur EXCEPT !.multi = TRUE]), sub |-> NoSub]
                 ELSE [ch |-> ch,
                       sub |-> Inner(IF w.item = "IsFuncDeclaration" THEN "Function"
                                     ELSE IF w.item = "IsUserDefinedType" THEN "UserDefinedType" ELSE "ControlStructure", TRUE)]
      [] ev.rule = "IsBlockEnd" ->
            (* Scope.outer() is called by the rule itself: the lines counted so far go to the parent NOW, i.e. *)
            (* before CheckLineCount adds the line of the closing brace to the scope that is being left         *)
            IF cur.name # "ControlStructure" THEN [ch |-> TransferLines(ch), sub |-> Outer]
            ELSE [ch |-> SetTop(ch, [cur EXCEPT !.multi = FALSE]), sub |-> NoSub]
      [] ev.rule = "IsControlStatement" ->
            [ch |-> ch, sub |-> IF ev.opensControl THEN Inner("ControlStructure", FALSE) ELSE NoSub]
      [] ev.rule = "IsUserDefinedType" ->
            [ch |-> ch, sub |-> IF ev.opensType THEN Inner(IF ev.isEnum THEN "UserDefinedEnum" ELSE "UserDefinedType", FALSE) ELSE NoSub]
      (* LeakedSub: IsBlockEnd gave up on "} *name;" after having called outer(); the rule that finally matches *)
      (* (IsDeclaration) inherits the pending scope                                                          *)
      [] OTHER -> IF ev.leakedOuter THEN [ch |-> TransferLines(ch), sub |-> Outer] ELSE [ch |-> ch, sub |-> NoSub]

(* ---- Context.update ----------------------------------------------------------------------------------------- *)
RECURSIVE PopSingleLine(_)
PopSingleLine(ch) == IF Len(ch) > 1 /\ Top(ch).name = "ControlStructure" /\ ~Top(ch).multi /\ Top(ch).instr > 0
                     THEN PopSingleLine(Leave(ch)) ELSE ch
Update(ch, sub, rule) ==
    IF rule \in Trivia THEN [ch |-> ch, sub |-> sub]                   \* nothing happens, a pending scope stays pending
    ELSE LET c1 == IF sub.kind = "inner" THEN Append(ch, sub.sc)
                   ELSE IF sub.kind = "outer" THEN Drop(ch) ELSE ch
         IN [ch |-> PopSingleLine(c1), sub |-> NoSub]

(* one matched statement *)
Step(ch, sub, hist, ev) ==
    LET c0 == SetTop(ch, [Top(ch) EXCEPT !.instr = @ + 1])
        r  == RuleEffect(c0, hist, ev)
        s1 == IF r.sub.kind # "none" THEN r.sub ELSE sub
        c1 == SetTop(r.ch, [Top(r.ch) EXCEPT !.lines = @ + ev.nl])       \* CheckLineCount (a check on every rule)
    IN Update(c1, s1, ev.rule)

(* ---- invariants of the chain ------------------------------------------------------------------------------- *)
Names(ch) == [i \in DOMAIN ch |-> ch[i].name]
ScopeWellFormed(ch) ==
    /\ Len(ch) >= 1 /\ ch[1].name = "GlobalScope"
    /\ \A i \in 2..Len(ch) : ch[i].name # "GlobalScope"
    /\ \A i \in 2..Len(ch) : ch[i].name = "Function" => i = 2                   \* functions only at file level
    /\ \A i \in 1..(Len(ch) - 1) : ~(ch[i].name = "ControlStructure" /\ ~ch[i].multi /\ ch[i].instr > 0 /\ ch[i + 1].name # "ControlStructure")
=============================================================================
