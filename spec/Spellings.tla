------------------------------ MODULE Spellings ------------------------------
(* C18, in-model check: no spelling the concretiser may give to an ordinary identifier slot is a key of the *)
(* lexer's keyword table (extracted from the working tree) -- a keyword added to the table would swallow it. *)
EXTENDS Naturals, Sequences, FiniteSets, TLC, Extracted
CONSTANT Used          \* set of character sequences
KeywordKeys == {KeywordPairs[i][1] : i \in DOMAIN KeywordPairs}
ASSUME NoKeywordUsed == \A u \in Used : u \notin KeywordKeys
VARIABLE dummy
Init == dummy = 0
Next == UNCHANGED dummy
Spec == Init /\ [][Next]_dummy
Trivial == dummy = 0
=============================================================================
