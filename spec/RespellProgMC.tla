---------------------------- MODULE RespellProgMC ----------------------------
EXTENDS RespellProg, Json
ExportInv == phase = "respelled" => PrintT(<<"EXPORT", ToJson([kind |-> FileKind, prog |-> prog, prog2 |-> prog2, rs |-> rs, viol |-> viol.op])>>)
=============================================================================
