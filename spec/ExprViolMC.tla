----------------------------- MODULE ExprViolMC -----------------------------
EXTENDS ExprViol, Json
ExportInv == phase = "violated" => PrintT(<<"EXPORT", ToJson([kind |-> "c", prog |-> prog, viol |-> viol, nfun |-> 1])>>)
=============================================================================
