-------------------------------- MODULE Guard --------------------------------
(***************************************************************************)
(* C14: include-guard validation follows the file name.                    *)
(* Guard(name) is defined here over character sequences (upper-case every  *)
(* letter, '.' becomes '_'); header base names range over all strings of   *)
(* a small alphabet; each guard mutation of DESIGN 4.14 is a derivation    *)
(* with the diagnostic it must produce and the directive it must sit on.   *)
(***************************************************************************)
EXTENDS Norm

CONSTANT GLevel       \* 1: names of length 1..2, 2: 1..3

NameAlpha == {"a", "z", "h", "0", "_", "."}      \* "h": stems ending like the suffix (graph.h)
Up(c) == IF c = "a" THEN "A" ELSE IF c = "z" THEN "Z" ELSE IF c = "." THEN "_" ELSE IF c = "h" THEN "H" ELSE IF c = "c" THEN "C" ELSE c
Low(c) == IF c = "A" THEN "a" ELSE IF c = "Z" THEN "z" ELSE IF c = "H" THEN "h" ELSE c
GuardOf(name) == [i \in DOMAIN name |-> Up(name[i])]
Stems == {s \in UNION {[1..n -> NameAlpha] : n \in 1..(IF GLevel = 1 THEN 2 ELSE 3)} : s[1] \notin {".", "0"}}
                     \* a leading dot would make a hidden file; "a..h" etc. are kept (double dots, trailing underscore)
HName(st) == st \o <<".", "h">>
CName(st) == st \o <<".", "c">>

Sym(x) == Slot("sym", Len(x), 0)      \* rendered from the exported character sequence (field syms)
Ifndef(k)  == Line("ifndef", "IsPreprocessorStatement", <<L("#ifndef ", 8), Slot("sym", 0, k)>>)
Define(k)  == Line("guarddef", "IsPreprocessorStatement", <<L("# define ", 9), Slot("sym", 0, k)>>)
Endif      == Line("endif", "IsPreprocessorStatement", <<L("#endif", 6)>>)
TypeDecl   == Line("utype", "IsUserDefinedType", <<L("typedef int", 11), TAB1, Slot("tname", 5, 1), L(";", 1)>>)
Proto      == Line("proto", "IsFuncPrototype", <<L("int", 3), TAB1, Slot("f", 5, 1), L("(void);", 7)>>)
Proto2     == Line("proto", "IsFuncPrototype", <<L("int", 3), TAB1, Slot("f", 6, 2), L("(void);", 7)>>)
InnerDefine == Line("define", "IsPreprocessorStatement", <<L("# define ", 9), Slot("m", 5, 1), L(" ", 1), N2>>)
OuterDefine == Line("define", "IsPreprocessorStatement", <<L("#define ", 8), Slot("m", 5, 2), L(" ", 1), N2>>)
BodyLines  == <<TypeDecl, Empty, Proto, Empty>>

(* symbols: 1 = the symbol after #ifndef, 2 = the symbol after "# define", 3 = second guard *)
ChangeLast(g) == [g EXCEPT ![Len(g)] = "X"]
DropLast(g) == SubSeq(g, 1, Len(g) - 1)
LowerAll(g) == [i \in DOMAIN g |-> Low(g[i])]
LowerFirstLetter(g) == LET I == {i \in DOMAIN g : Low(g[i]) # g[i]} IN
                       IF I = {} THEN g ELSE [g EXCEPT ![CHOOSE i \in I : \A j \in I : i <= j] = Low(@)]
Other == <<"O", "T", "H", "E", "R", "_", "H">>

Std(s1, s2) == <<HeaderLine, Empty, Ifndef(1), Define(2), Empty>> \o BodyLines \o <<Endif>>
Case(m, lines, s1, s2, s3, code, onKind, nth) ==
    [m |-> m, lines |-> lines, syms |-> <<s1, s2, s3>>, code |-> code, on |-> onKind, nth |-> nth]

Mut(g) ==
  { Case("G0_correct", Std(g, g), g, g, g, "", "", 0),
    Case("G1_one_char", Std(g, g), ChangeLast(g), ChangeLast(g), g, "HEADER_PROT_NAME", "ifndef", 1),
    Case("G1_prefix", Std(g, g), DropLast(g), DropLast(g), g, "HEADER_PROT_NAME", "ifndef", 1),
    Case("G1_other_file", Std(g, g), Other, Other, g, "HEADER_PROT_NAME", "ifndef", 1),
    Case("G2_lower", Std(g, g), LowerAll(g), LowerAll(g), g, "HEADER_PROT_UPPER", "ifndef", 1),
    Case("G2_mixed", Std(g, g), LowerFirstLetter(g), LowerFirstLetter(g), g, "HEADER_PROT_UPPER", "ifndef", 1),
    Case("G3_no_define", <<HeaderLine, Empty, Ifndef(1), Empty>> \o BodyLines \o <<Endif>>, g, g, g, "HEADER_PROT_NODEF", "endif", 1),
    Case("G3_define_other", Std(g, g), g, Other, g, "HEADER_PROT_NODEF", "endif", 1),
    Case("G3_no_define_other_macro", <<HeaderLine, Empty, Ifndef(1), Empty, InnerDefine, Empty>> \o BodyLines \o <<Endif>>, g, g, g, "HEADER_PROT_NODEF", "endif", 1),
    Case("G4_second_after", <<HeaderLine, Empty, Ifndef(1), Define(2), Empty>> \o BodyLines \o <<Endif, Empty, Ifndef(3), Define(3), Empty, Proto2, Empty, Endif>>,
         g, g, Other, "HEADER_PROT_MULT", "ifndef", 2),
    Case("G4_nested", <<HeaderLine, Empty, Ifndef(1), Define(2), Empty, Line("ifndef", "IsPreprocessorStatement", <<L("# ifndef ", 9), Slot("sym", 0, 3)>>),
                        Line("guarddef", "IsPreprocessorStatement", <<L("#  define ", 10), Slot("sym", 0, 3)>>),
                        Line("endif", "IsPreprocessorStatement", <<L("# endif", 7)>>), Empty>> \o BodyLines \o <<Endif>>,
         g, g, Other, "", "", 0),      \* a nested #ifndef at depth 2 is ordinary conditional code: nothing is demanded
    Case("G5_decl_before", <<HeaderLine, Empty, Proto2, Empty, Ifndef(1), Define(2), Empty>> \o BodyLines \o <<Endif>>, g, g, g, "HEADER_PROT_ALL", "ifndef", 1),
    Case("G5_define_before", <<HeaderLine, Empty, OuterDefine, Empty, Ifndef(1), Define(2), Empty>> \o BodyLines \o <<Endif>>, g, g, g, "HEADER_PROT_ALL", "ifndef", 1),
    Case("G5_typedef_before", <<HeaderLine, Empty, TypeDecl, Empty, Ifndef(1), Define(2), Empty, Proto, Empty, Endif>>, g, g, g, "HEADER_PROT_ALL", "ifndef", 1),
    Case("G6_decl_after", Std(g, g) \o <<Empty, Proto2>>, g, g, g, "HEADER_PROT_ALL_AF", "", 0),
    Case("G7_no_guard", <<HeaderLine, Empty>> \o BodyLines, g, g, g, "HEADER_PROT_*", "", 0) }

VARIABLE gcase
GCases == UNION {{[name |-> HName(st), isc |-> FALSE, mut |-> mu] : mu \in Mut(GuardOf(HName(st)))} : st \in Stems}
          \cup UNION {{[name |-> CName(st), isc |-> TRUE, mut |-> [mu EXCEPT !.code = "", !.on = "", !.nth = 0]]
                         : mu \in Mut(GuardOf(HName(st)))} : st \in {<<"a">>, <<"z", "0">>, <<"a", "_">>}}
GInit == /\ gcase \in GCases
         /\ prog = gcase.mut.lines /\ phase = "done" /\ nfun = 0 /\ body = 0 /\ open = <<>> /\ elseOK = 0
         /\ ndecl = 0 /\ viol = NoViol /\ scope = << [name |-> "GlobalScope", multi |-> FALSE] >> /\ wrapped = FALSE
GNext == UNCHANGED <<nvars, gcase>>
GSpec == GInit /\ [][GNext]_<<nvars, gcase>>

(* the guard symbol is well defined: a C identifier character sequence made of upper-case letters, digits, '_' *)
GuardWellFormed == \A i \in DOMAIN GuardOf(gcase.name) : GuardOf(gcase.name)[i] \in {"A", "Z", "H", "C", "0", "_"}
(* the mutations really differ from the correct symbol *)
MutationsDiffer == gcase.mut.m \in {"G1_one_char", "G1_prefix", "G1_other_file", "G2_lower", "G2_mixed"}
                       => gcase.mut.syms[1] # GuardOf(gcase.name)
=============================================================================
