------------------------------ MODULE ExprViol ------------------------------
(***************************************************************************)
(* C02, systematic part for the operator-spacing operators: EVERY          *)
(* expression of the table (Expr.tla) in every slot kind, with every       *)
(* line-local operator applied at its site of that line.  Used (a) in the  *)
(* thorough tier and (b) once, off line, to chart the site classes at      *)
(* which the tool does not report a spacing violation                      *)
(* (known_findings.json: operator_spacing_holes).                          *)
(***************************************************************************)
EXTENDS Viol

CONSTANT XShard, XShards

SlotKinds == {"assign", "if", "while", "return", "arg"}
StmtFor(kind, e) ==
  CASE kind = "assign" -> Line("stmt", "IsAssignation", <<TAB1, V3, L(" = ", 3)>> \o e \o <<L(";", 1)>>)
    [] kind = "if" -> Line("ctrl", "IsControlStatement", <<TAB1, L("if (", 4)>> \o e \o <<L(")", 1)>>)
    [] kind = "while" -> Line("ctrl", "IsControlStatement", <<TAB1, L("while (", 7)>> \o e \o <<L(")", 1)>>)
    [] kind = "return" -> Line("stmt", "IsExpressionStatement", <<TAB1, L("return (", 8)>> \o e \o <<L(");", 2)>>)
    [] kind = "arg" -> Line("stmt", "IsFunctionCall", <<TAB1, F4, L("(", 1), V1, L(", ", 2)>> \o e \o <<L(");", 2)>>)
ProgFor(kind, e) ==
  << HeaderLine, Empty,
     Line("funchead", "IsFuncDeclaration", <<L("int", 3), TAB1, Slot("f", 5, 1), L("(int ", 5), V1, L(", char *", 8), V3, L(")", 1)>>),
     Line("lbrace", "IsBlockStart", <<L("{", 1)>>),
     StmtFor(kind, e) >>
  \o (IF kind \in {"if", "while"} THEN <<Line("stmt", "IsAssignation", <<TAB1, TAB1, V1, L(" = ", 3), N1, L(";", 1)>>)>> ELSE <<>>)
  \o << Line("stmt", "IsExpressionStatement", <<TAB1, L("return (", 8), N1, L(");", 2)>>),
        Line("rbrace", "IsBlockEnd", <<L("}", 1)>>) >>

SpacingOps == {"double_space", "tab_before_op", "no_space_before_op", "no_space_after_op", "no_space_after_comma", "space_before_comma",
               "space_after_lpar", "space_before_rpar", "kw_no_space", "mid_comment"}
(* the operator is applied at EVERY spaced operator of the line, not only the first: rotate the expression *)
XCases == {[kind |-> k, e |-> e] : k \in SlotKinds, e \in ExprTable}
XHash(c) == (Len(c.e) * 7 + Width(c.e)) % XShards
XInit == /\ \E c \in {x \in XCases : XHash(x) = XShard} : prog = ProgFor(c.kind, c.e)
         /\ phase = "done" /\ nfun = 1 /\ body = 0 /\ open = <<>> /\ elseOK = 0 /\ ndecl = 0 /\ viol = NoViol
         /\ scope = << [name |-> "GlobalScope", multi |-> FALSE] >> /\ wrapped = FALSE

(* all spaced-operator positions of line 5 *)
OpPositions == {j \in DOMAIN prog[5].items : IsSpacedOp(prog[5].items[j])}
RwAt(op, its, jo) ==
  CASE op = "double_space" -> Repl(its, jo, <<L(DoubleSpaceBefore[its[jo].x], its[jo].w + 1)>>)
    [] op = "tab_before_op" -> Repl(its, jo, <<TAB1, L(NoSpaceBefore[its[jo].x], its[jo].w - 1)>>)
    [] op = "no_space_before_op" -> Repl(its, jo, <<L(NoSpaceBefore[its[jo].x], its[jo].w - 1)>>)
    [] op = "no_space_after_op" -> Repl(its, jo, <<L(NoSpaceAfter[its[jo].x], its[jo].w - 1)>>)
    [] op = "mid_comment" -> Repl(its, jo, <<L(" /* x */", 8), its[jo]>>)
SiteAt(l, j) == [k |-> l.k, lit |-> Desc(l.items, j), prev |-> Desc(l.items, j - 1), next |-> Desc(l.items, j + 1),
                 next2 |-> Desc(l.items, j + 2), first |-> Desc(l.items, LeadTabs(l.items) + 1), tabs |-> LeadTabs(l.items)]
XViolate ==
    /\ phase = "done"
    /\ \/ \E op \in {"double_space", "tab_before_op", "no_space_before_op", "no_space_after_op", "mid_comment"}, jo \in OpPositions :
            /\ (op = "no_space_after_op" =>
                    (jo < Len(prog[5].items) /\ (prog[5].items[jo + 1].s # "L" \/ prog[5].items[jo + 1].x \in {"(", "sizeof("})))
            /\ prog' = [prog EXCEPT ![5].items = RwAt(op, @, jo)]
            /\ viol' = [op |-> op, line |-> 5, code |-> Code(op), site |-> SiteAt(prog[5], jo)]
       \/ \E op \in SpacingOps \ {"double_space", "tab_before_op", "no_space_before_op", "no_space_after_op", "mid_comment"} :
            /\ App(op, prog[5], 5)
            /\ prog' = [prog EXCEPT ![5].items = Rw(op, prog[5])]
            /\ viol' = [op |-> op, line |-> 5, code |-> Code(op), site |-> SiteOf(op, prog[5])]
    /\ phase' = "violated"
    /\ UNCHANGED <<nfun, body, open, elseOK, ndecl, scope, wrapped>>
XSpec == XInit /\ [][XViolate]_nvars
=============================================================================
