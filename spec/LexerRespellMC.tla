-------------------------- MODULE LexerRespellMC --------------------------
EXTENDS LexerRespell, Json
ExportInv == (phase = "B" /\ modeB \in {"done", "crash"}) =>
    PrintT(<<"EXPORT", ToJson([a |-> srcA, b |-> srcB,
                               toks |-> [i \in DOMAIN A!Toks |-> [t |-> A!Toks[i].type, x |-> A!Toks[i].text]],
                               sites |-> sitesB \cup sitesA])>>)
=============================================================================
