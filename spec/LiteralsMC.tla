---------------------------- MODULE LiteralsMC ----------------------------
EXTENDS Literals, Json
ExportInv == mode \in {"done", "crash"} =>
    PrintT(<<"EXPORT", ToJson([fam |-> lit.fam, t |-> lit.t, pre |-> lit.pre, post |-> lit.post,
                               expect |-> lit.expect, ok |-> ClassOK, mode |-> mode,
                               toks |-> [i \in DOMAIN Toks |-> [t |-> Toks[i].type, x |-> Toks[i].text,
                                                                 s |-> Toks[i].s, e |-> Toks[i].e]],
                               diags |-> [i \in DOMAIN diags |-> [code |-> diags[i].code, hl |-> diags[i].hl]]])>>)
=============================================================================
