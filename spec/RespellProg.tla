----------------------------- MODULE RespellProg -----------------------------
(***************************************************************************)
(* C12 at program level: a completed derivation (conforming or with one    *)
(* violation) is paired with a respelling of it: every / one / the brace   *)
(* and bracket literal items written as digraphs or trigraphs, and line    *)
(* splices (backslash-newline or ??/-newline) put between two items of a   *)
(* code line.  The token kinds and values of the two texts must be equal;  *)
(* for brace/bracket respellings the diagnostics must be equal too, apart  *)
(* from columns and from the lines the longer spelling pushes over 80      *)
(* columns (computed here with the specification's width function).        *)
(***************************************************************************)
EXTENDS Viol, RespellTables

VARIABLES prog2, rs
rvars2 == <<nvars, prog2, rs>>

Respellable(it) == it.s = "L" /\ it.x \in DOMAIN RespellAllDi
Tab(mode) == IF mode = "all_di" THEN RespellAllDi ELSE IF mode = "all_tri" THEN RespellAllTri
             ELSE IF mode = "braces_di" THEN RespellBracesDi ELSE RespellBracesTri
Re(it, mode) == IF Respellable(it) THEN L(Tab(mode)[it.x][1], it.w + Tab(mode)[it.x][2]) ELSE it
ReLine(l, mode) == [l EXCEPT !.items = [j \in DOMAIN l.items |-> Re(l.items[j], mode)]]
CodeLine(l) == l.k \in {"stmt", "ctrl", "decl", "funchead", "global", "proto", "define", "lbrace", "rbrace", "field", "utype", "enumval"}
               /\ ~\E j \in DOMAIN l.items : l.items[j].s = "L" /\ l.items[j].x \in {" // ", "// ", " /* x */", "/* ", " */", "/*", "*/"}
Sites2 == {<<i, j>> \in (DOMAIN prog) \X (1..14) : CodeLine(prog[i]) /\ j < Len(prog[i].items) /\ prog[i].items[j].s # "T"
                                                     /\ ~(prog[i].k = "define" /\ j <= 2)}
Splice(form) == IF form = 1 THEN [s |-> "L", x |-> "\\\n", w |-> 0, n |-> 0] ELSE [s |-> "L", x |-> "??/\n", w |-> 0, n |-> 0]
Ready2 == IF WithViol THEN phase = "violated" ELSE phase = "done"

RespellStep ==
    /\ Ready2
    /\ \/ \E mode \in {"all_di", "all_tri", "braces_di", "braces_tri"} :
            /\ prog2' = [i \in DOMAIN prog |-> ReLine(prog[i], mode)]
            /\ rs' = [mode |-> mode, line |-> 0, item |-> 0,
                      long |-> {i \in DOMAIN prog : LineWidth(prog[i]) <= 80 /\ LineWidth(ReLine(prog[i], mode)) > 80}]
       \/ /\ Sites2 # {}
          /\ \E s \in (IF Sim THEN Pick(Sites2) ELSE Sites2), form \in 1..2 :
               /\ prog2' = [prog EXCEPT ![s[1]].items = SubSeq(@, 1, s[2]) \o <<Splice(form)>> \o SubSeq(@, s[2] + 1, Len(@))]
               /\ rs' = [mode |-> "splice", line |-> s[1], item |-> s[2], long |-> {}]
       \/ \E i \in {x \in DOMAIN prog : \E j \in DOMAIN prog[x].items : Respellable(prog[x].items[j])}, mode \in {"all_di", "all_tri"} :
               /\ prog2' = [prog EXCEPT ![i] = ReLine(prog[i], mode)]
               /\ rs' = [mode |-> "one_line_" \o mode, line |-> i, item |-> 0,
                         long |-> {x \in {i} : LineWidth(prog[i]) <= 80 /\ LineWidth(ReLine(prog[i], mode)) > 80}]
    /\ phase' = "respelled"
    /\ UNCHANGED <<prog, nfun, body, open, elseOK, ndecl, viol, scope, wrapped>>

RInit2 == Init /\ prog2 = <<>> /\ rs = [mode |-> "", line |-> 0, item |-> 0, long |-> {}]
RNext2 == (VNext /\ UNCHANGED <<prog2, rs>>) \/ RespellStep
RSpec2 == RInit2 /\ [][RNext2]_rvars2
RespellWellFormed == phase = "respelled" => Len(prog2) = Len(prog)
=============================================================================
