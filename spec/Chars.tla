------------------------------- MODULE Chars -------------------------------
(***************************************************************************)
(* Character classes, tab-stop arithmetic and the dictionaries of the      *)
(* tokenizer.  The dictionaries come from Extracted.tla, which the harness *)
(* regenerates from the implementation's working tree before every run;    *)
(* the ASSUMEs below are therefore re-checked by TLC on every run.         *)
(***************************************************************************)
EXTENDS Naturals, Integers, Sequences, FiniteSets, TLC, Extracted

NL  == "\n"
TAB == "\t"
SP  == " "
BSL == "\\"
SQ  == "'"
DQ  == "\""
EOF == "EOF"      \* not a character: what reading past the end yields

Lower == {"a","b","c","d","e","f","g","h","i","j","k","l","m",
          "n","o","p","q","r","s","t","u","v","w","x","y","z"}
Upper == {"A","B","C","D","E","F","G","H","I","J","K","L","M",
          "N","O","P","Q","R","S","T","U","V","W","X","Y","Z"}
Digit    == {"0","1","2","3","4","5","6","7","8","9"}
OctDigit == {"0","1","2","3","4","5","6","7"}
HexDigit == Digit \cup {"a","b","c","d","e","f","A","B","C","D","E","F"}
IdStart  == Lower \cup Upper \cup {"_"}
IdChar   == IdStart \cup Digit
WordCh   == IdChar                       \* regex \w over ASCII

(* ---- dictionaries as functions ---------------------------------------- *)
Keys(ps)   == {ps[i][1] : i \in DOMAIN ps}
Vals(ps)   == {ps[i][2] : i \in DOMAIN ps}
FunOf(ps)  == [k \in Keys(ps) |-> ps[CHOOSE i \in DOMAIN ps : ps[i][1] = k][2]]
InvOf(ps)  == [v \in Vals(ps) |-> ps[CHOOSE i \in DOMAIN ps : ps[i][2] = v][1]]

Trigraph == FunOf(TrigraphPairs)
Digraph  == FunOf(DigraphPairs)
Keyword  == FunOf(KeywordPairs)
Operator == FunOf(OperatorPairs)
Bracket  == FunOf(BracketPairs)

Injective(ps) == \A i, j \in DOMAIN ps : i # j => (ps[i][1] # ps[j][1] /\ ps[i][2] # ps[j][2])

(* C10 mechanism "keyword/operator/bracket dictionaries are injective":    *)
(* a valueless token's source text is recovered from its type, so two      *)
(* spellings sharing a type (or a spelling listed twice) would lose text.  *)
DictInjective ==
    /\ Injective(KeywordPairs)
    /\ Injective(OperatorPairs)
    /\ Injective(BracketPairs)
    /\ Vals(KeywordPairs) \cap Vals(OperatorPairs) = {}
    /\ Vals(KeywordPairs) \cap Vals(BracketPairs) = {}
    /\ Vals(OperatorPairs) \cap Vals(BracketPairs) = {}
    /\ \A i, j \in DOMAIN TrigraphPairs : i # j => TrigraphPairs[i][1] # TrigraphPairs[j][1]
    /\ \A i, j \in DOMAIN DigraphPairs  : i # j => DigraphPairs[i][1] # DigraphPairs[j][1]
ASSUME DictInjective

(* Every keyword is spelled with identifier characters only and no token  *)
(* type is at the same time a "value" type.                                *)
ValueTypes == {"IDENTIFIER", "CONSTANT", "CHAR_CONST", "STRING", "COMMENT", "MULT_COMMENT"}
WsTypes    == {"SPACE", "TAB", "NEWLINE"}
ASSUME \A k \in Keys(KeywordPairs) : Len(k) >= 1 /\ k[1] \in IdStart /\ \A i \in DOMAIN k : k[i] \in IdChar
ASSUME (Vals(KeywordPairs) \cup Vals(OperatorPairs) \cup Vals(BracketPairs)) \cap (ValueTypes \cup WsTypes) = {}

(* ---- tab stops --------------------------------------------------------- *)
TabW(c) == 4 - ((c - 1) % 4)             \* width of a tab that starts in column c

Min(a, b) == IF a <= b THEN a ELSE b
Max(a, b) == IF a >= b THEN a ELSE b
Spaces(n) == [i \in 1..n |-> SP]
=============================================================================
