------------------------------ MODULE GarbageMC ------------------------------
EXTENDS Garbage, Json
ExportInv == phase = "garbled" => PrintT(<<"EXPORT", ToJson([kind |-> FileKind, prog |-> prog, garb |-> garb, nfun |-> nfun])>>)
=============================================================================
