----------------------------- MODULE NormEngine -----------------------------
(***************************************************************************)
(* Refinement link between the two models of the statement engine:         *)
(*   Norm.tla   (intent-shaped): the grammar writes Tabs(Depth) in front of *)
(*              every statement and keeps, in the variable scope, the      *)
(*              chain of scopes it EXPECTS the engine to be in;            *)
(*   Engine.tla (implementation-shaped): Registry.run / Context.update as  *)
(*              transcribed from the code and bound to it event by event   *)
(*              (EngineTrace.tla, EngineMC replay).                        *)
(* Every program that Norm.tla derives is turned into the statement events *)
(* the code would see (one per line, with the facts the scope logic reads) *)
(* and fed to Engine!Step; EngineAgrees says that the chain the            *)
(* implementation-shaped machine ends in is the one the grammar assumed    *)
(* (names and multi-line flags), in every reachable state, hence that the  *)
(* tabs written by the grammar are the indentation the engine demands.     *)
(***************************************************************************)
EXTENDS Norm
E == INSTANCE Engine

HasNL(l) == \E j \in DOMAIN l.items : l.items[j] = NLc
NLCount(l) == Cardinality({j \in DOMAIN l.items : l.items[j] = NLc})
IsLitItem(it, x) == it.s = "L" /\ it.x = x
EvOf(i) ==
    LET l == prog[i]
        nxtBrace == i < Len(prog) /\ prog[i + 1].k = "lbrace"
    IN [rule |-> IF l.k = "header42" \/ l.st = "IsComment3" THEN "IsComment" ELSE l.st,
        nl |-> IF l.k = "header42" THEN 11 ELSE IF l.st = "IsComment3" THEN 3 ELSE 1 + NLCount(l),
        nextLBrace |-> nxtBrace,
        opensControl |-> l.st = "IsControlStatement" /\ ~IsLitItem(l.items[Len(l.items)], ";"),
        opensType |-> l.k = "utype" /\ nxtBrace,
        isEnum |-> l.k = "utype" /\ \E j \in DOMAIN l.items : IsLitItem(l.items[j], "typedef enum "),
        leakedOuter |-> l.k = "rbrace" /\ l.st = "IsDeclaration"]

RECURSIVE Fold(_, _, _, _)
Fold(i, ch, sub, hist) ==
    IF i > Len(prog) THEN ch
    ELSE LET ev == EvOf(i)
             r == E!Step(ch, sub, hist, ev)
         IN Fold(i + 1, r.ch, r.sub, Append(hist, ev.rule))
EngineChain == Fold(1, E!GlobalChain, E!NoSub, <<>>)
Abs(ch) == [i \in DOMAIN ch |-> [name |-> IF ch[i].name = "UserDefinedEnum" THEN "UserDefinedType" ELSE ch[i].name, multi |-> ch[i].multi]]

(* the program is at a statement boundary whose last line is not waiting for its brace *)
Settled == Len(prog) = 0 \/ prog[Len(prog)].k \notin {"funchead", "utype"}
EngineAgrees == (Settled /\ phase # "violated") => Abs(EngineChain) = scope
=============================================================================
