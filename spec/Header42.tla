------------------------------ MODULE Header42 ------------------------------
(***************************************************************************)
(* C13: the 42 header is recognised exactly.                               *)
(* The stdheader template as 11 abstract lines (items with widths, so that *)
(* TLC checks that every line is exactly 80 columns for every shape), the  *)
(* intended recogniser HeaderOK over abstract lines, and the structural    *)
(* mutations of DESIGN 4.13, each of which must yield INVALID_HEADER        *)
(* exactly once while an unmutated header of any shape yields none.        *)
(***************************************************************************)
EXTENDS Norm

CONSTANT HLevel     \* 1: covering shapes, 2: all shapes

Sp(w) == Slot("sp", w, 0)                      \* w spaces
StarRow == Slot("stars", 74, 0)
W0(b) == Width(b)
HL(k, bd) == Line(k, "IsComment", <<L("/* ", 3)>> \o bd \o <<Sp(74 - W0(bd))>> \o <<L(" */", 3)>>)

(* shape: lengths of file name, login, mail domain.  The template (stdheader.vim: margin 5, text width 80) writes each *)
(* row as "/*" + 3 blanks + the left text CLIPPED and padded to 45 columns + a 25-column row of the ASCII art + 3 blanks *)
(* + "*/": a long login or mail domain loses the end of the By line (the closing ">" first), a long login the end of    *)
(* the Created / Updated lines, a long file name its end.                                                              *)
Shapes == IF HLevel = 1 THEN {[f |-> 3, l |-> 1, d |-> 4], [f |-> 10, l |-> 6, d |-> 13], [f |-> 41, l |-> 9, d |-> 15],
                              [f |-> 25, l |-> 8, d |-> 20], [f |-> 6, l |-> 9, d |-> 4],
                              [f |-> 10, l |-> 8, d |-> 21],      \* the By text is 45 columns: fits exactly
                              [f |-> 6, l |-> 9, d |-> 21],       \* 47: the ">" and one character of the domain are clipped
                              [f |-> 3, l |-> 13, d |-> 13],      \* clipped inside the domain; Created/Updated fit exactly
                              [f |-> 10, l |-> 19, d |-> 4],      \* nothing of the domain is left; Created/Updated clip the login
                              [f |-> 47, l |-> 6, d |-> 13]}      \* the file name is clipped
          ELSE [f : {3, 6, 10, 17, 25, 33, 41, 45, 47}, l : (1..9) \cup {13, 14, 19, 22}, d : {4, 9, 13, 17, 20, 21, 26}]

FrameLine == Line("h_frame", "IsComment", <<L("/* ", 3), StarRow, L(" */", 3)>>)
BlankLine == HL("h_blank", <<>>)
SpZ(n) == IF n > 0 THEN <<Sp(n)>> ELSE <<>>
Min(a, b) == IF a < b THEN a ELSE b
(* one row: left text (already clipped to at most 45 columns) + art row (lead blanks, art, trailing blanks = 25 columns) *)
Row(k, left, lead, art) == Line(k, "IsComment", <<L("/*", 2), Sp(3)>> \o left \o SpZ(45 - Width(left)) \o SpZ(lead) \o <<art>>
                                                 \o SpZ(25 - lead - art.w) \o <<Sp(3), L("*/", 2)>>)
ByLeft(s) == LET T == 8 + 2 * s.l + s.d IN
             IF T <= 45 THEN <<L("By: ", 4), Slot("login", s.l, 0), L(" <", 2), Slot("login", s.l, 0), L("@", 1), Slot("domain", s.d, 0), L(">", 1)>>
             ELSE IF 7 + 2 * s.l < 45
                  THEN <<L("By: ", 4), Slot("login", s.l, 0), L(" <", 2), Slot("login", s.l, 0), L("@", 1), Slot("domain", 45 - (7 + 2 * s.l), 0)>>
                  ELSE IF 7 + 2 * s.l = 45 THEN <<L("By: ", 4), Slot("login", s.l, 0), L(" <", 2), Slot("login", s.l, 0), L("@", 1)>>
                  ELSE <<L("By: ", 4), Slot("login", s.l, 0), L(" <", 2), Slot("login", 45 - (6 + s.l), 0)>>
StampLeft(word, n, s) == <<L(word, 9), Slot("date", 19, n), L(" by ", 4), Slot("login", Min(s.l, 13), 0)>>
Hdr(s) ==
  << FrameLine,
     BlankLine,
     Row("h_art", <<>>, 8, L(":::      ::::::::", 17)),
     Row("h_file", <<Slot("hfile", Min(s.f, 45), 0)>>, 6, L(":+:      :+:    :+:", 19)),
     Row("h_art", <<>>, 4, L("+:+ +:+         +:+", 19)),
     Row("h_by", ByLeft(s), 2, L("+#+  +:+       +#+", 18)),
     Row("h_art", <<>>, 0, L("+#+#+#+#+#+   +#+", 17)),
     Row("h_created", StampLeft("Created: ", 1, s), 5, L("#+#    #+#", 10)),
     Row("h_updated", StampLeft("Updated: ", 2, s), 4, L("###   ########.fr", 17)),
     BlankLine,
     FrameLine >>

(* the intended recogniser, on abstract lines *)
HeaderOK(ls) ==
    /\ Len(ls) >= 11
    /\ ls[1].k = "h_frame" /\ ls[11].k = "h_frame"
    /\ ls[4].k = "h_file" /\ ls[6].k = "h_by" /\ ls[8].k = "h_created" /\ ls[9].k = "h_updated"
    /\ \A i \in 1..11 : ls[i].k \in {"h_frame", "h_blank", "h_art", "h_file", "h_by", "h_created", "h_updated"}
    /\ \A i \in 1..11 : LineWidth(ls[i]) = 80

(* ---- structural mutations: [name, lines before the body] -------------------------------------------------- *)
DelAt(s, i) == SubSeq(s, 1, i - 1) \o SubSeq(s, i + 1, Len(s))
Swap(s, i, j) == [s EXCEPT ![i] = s[j], ![j] = s[i]]
CodeLine == Line("global", "IsVarDeclaration", <<L("int", 3), TAB1, Slot("g", 5, 1), L(";", 1)>>)
PreLine == Line("define", "IsPreprocessorStatement", <<L("#define ", 8), Slot("m", 4, 1), L(" ", 1), N2>>)
OtherComment == Line("comment", "IsComment", <<L("/* ", 3), Slot("txt", 14, 0), L(" */", 3)>>)
Frame(n) == Line("h_frame_bad", "IsComment", <<L("/* ", 3), Slot("stars", n, 0), L(" */", 3)>>)
NoField(k, s) == IF k = "h_by" THEN HL("h_by_bad", <<Sp(2), L("Bx: ", 4), Slot("login", s.l, 0)>>)
                 ELSE IF k = "h_created" THEN HL("h_created_bad", <<Sp(2), L("Created  ", 9), Slot("date", 19, 1)>>)
                 ELSE HL("h_updated_bad", <<Sp(2), L("Update: ", 8), Slot("date", 19, 2), L(" by ", 4), Slot("login", s.l, 0)>>)
AsLineComments(h) == [i \in DOMAIN h |-> [h[i] EXCEPT !.k = "h_slashslash"]]     \* rendered with // instead of /* */
AsOneBlock(h) == [i \in DOMAIN h |-> [h[i] EXCEPT !.k = "h_oneblock"]]            \* one comment spanning the 11 lines

Mutations(s) ==
  LET h == Hdr(s) IN
  {[m |-> "none", pre |-> h \o <<Empty>>, expect |-> 0],
   [m |-> "none_comment_after", pre |-> h \o <<OtherComment, Empty>>, expect |-> 0],
   [m |-> "none_code_after", pre |-> h \o <<CodeLine, Empty>>, expect |-> 0]}
  \cup {[m |-> "H1_absent", pre |-> <<>>, expect |-> 1],
        [m |-> "H2_other_comment", pre |-> <<OtherComment, Empty>>, expect |-> 1],
        [m |-> "H3_empty_before", pre |-> <<Empty>> \o h \o <<Empty>>, expect |-> 1],
        [m |-> "H4_code_before", pre |-> <<CodeLine>> \o h \o <<Empty>>, expect |-> 1],
        [m |-> "H4_preproc_before", pre |-> <<PreLine>> \o h \o <<Empty>>, expect |-> 1],
        [m |-> "H5_line_comments", pre |-> AsLineComments(h) \o <<Empty>>, expect |-> 1],
        [m |-> "H6_one_block", pre |-> AsOneBlock(h) \o <<Empty>>, expect |-> 1],
        [m |-> "H8_frame1_73", pre |-> [h EXCEPT ![1] = Frame(73)] \o <<Empty>>, expect |-> 1],
        [m |-> "H8_frame1_75", pre |-> [h EXCEPT ![1] = Frame(75)] \o <<Empty>>, expect |-> 1],
        [m |-> "H8_frame11_73", pre |-> [h EXCEPT ![11] = Frame(73)] \o <<Empty>>, expect |-> 1],
        [m |-> "H8_frame11_75", pre |-> [h EXCEPT ![11] = Frame(75)] \o <<Empty>>, expect |-> 1],
        [m |-> "H9_no_by", pre |-> [h EXCEPT ![6] = NoField("h_by", s)] \o <<Empty>>, expect |-> 1],
        [m |-> "H10_no_created", pre |-> [h EXCEPT ![8] = NoField("h_created", s)] \o <<Empty>>, expect |-> 1],
        [m |-> "H11_no_updated", pre |-> [h EXCEPT ![9] = NoField("h_updated", s)] \o <<Empty>>, expect |-> 1],
        [m |-> "H12_swap_6_8", pre |-> Swap(h, 6, 8) \o <<Empty>>, expect |-> 1],
        [m |-> "H12_swap_8_9", pre |-> Swap(h, 8, 9) \o <<Empty>>, expect |-> 1],
        [m |-> "H13_code_inside", pre |-> SubSeq(h, 1, 5) \o <<CodeLine>> \o SubSeq(h, 6, 11) \o <<Empty>>, expect |-> 1]}
  \cup {[m |-> "H7_line_removed", pre |-> DelAt(h, i) \o <<Empty>>, expect |-> 1, which |-> i] : i \in 1..11}

Bodies == << <<Line("funchead", "IsFuncDeclaration", <<L("int", 3), TAB1, Slot("f", 4, 1), L("(void)", 6)>>),
               Line("lbrace", "IsBlockStart", <<L("{", 1)>>),
               Line("stmt", "IsExpressionStatement", <<TAB1, L("return (", 8), N1, L(");", 2)>>),
               Line("rbrace", "IsBlockEnd", <<L("}", 1)>>)>>,
             <<Line("include", "IsPreprocessorStatement", <<L("#include <", 10), Slot("inc", 6, 0), L(".h>", 3)>>), Empty,
               Line("funchead", "IsFuncDeclaration", <<L("void", 4), TAB1, Slot("f", 4, 1), L("(int ", 5), Slot("p", 1, 1), L(")", 1)>>),
               Line("lbrace", "IsBlockStart", <<L("{", 1)>>),
               Line("stmt", "IsExpressionStatement", <<TAB1, L("(void)", 6), Slot("p", 1, 1), L(";", 1)>>),
               Line("rbrace", "IsBlockEnd", <<L("}", 1)>>)>> >>

VARIABLE hcase
HCases == UNION {{[shape |-> s, mut |-> mu, bidx |-> b] : mu \in Mutations(s), b \in DOMAIN Bodies} : s \in Shapes}
HInit == /\ hcase \in HCases
         /\ prog = hcase.mut.pre \o Bodies[hcase.bidx] /\ phase = "done" /\ nfun = 1 /\ body = 0 /\ open = <<>> /\ elseOK = 0
         /\ ndecl = 0 /\ viol = NoViol /\ scope = << [name |-> "GlobalScope", multi |-> FALSE] >> /\ wrapped = FALSE
HNext == UNCHANGED <<nvars, hcase>>
HSpec == HInit /\ [][HNext]_<<nvars, hcase>>

(* every line of an unmutated header is exactly 80 columns, the recogniser accepts it, and rejects every mutation *)
TemplateOK == hcase.mut.expect = 0 => HeaderOK(hcase.mut.pre)
MutationsRejected == hcase.mut.expect = 1 => ~HeaderOK(hcase.mut.pre)
=============================================================================
