------------------------------- MODULE Limits -------------------------------
(***************************************************************************)
(* C03: numeric limits are enforced exactly at their boundary.             *)
(* For each limit L in {80 columns, 25 lines, 5 functions, 4 parameters,   *)
(* 5 variables}, each measure n in [L-3, L+6] and each context, one        *)
(* derivation built from the same line constructors as Norm.tla, with      *)
(* expect = (n > L).  The universe is a finite product; TLC enumerates it  *)
(* completely and checks on every element that the measure the             *)
(* specification computes (LineWidth with 4-column tab stops, line /       *)
(* function / parameter / declaration counts) is the intended n.           *)
(***************************************************************************)
EXTENDS Norm

HeaderEmpty == <<HeaderLine, Empty>>
Brace(l, d) == Line(IF l THEN "lbrace" ELSE "rbrace", IF l THEN "IsBlockStart" ELSE "IsBlockEnd", Tabs(d) \o <<L(IF l THEN "{" ELSE "}", 1)>>)
SimpleLine(d) == Line("stmt", "IsAssignation", Tabs(d) \o <<V1, L(" = ", 3), N1, L(";", 1)>>)
FHead(i, params) == Line("funchead", "IsFuncDeclaration", <<L("int", 3), TAB1, Slot("f", 5, i), L("(", 1)>> \o params \o <<L(")", 1)>>)
FuncOf(i, bodyLines) == <<FHead(i, <<L("void", 4)>>), Brace(TRUE, 0)>> \o bodyLines \o <<Brace(FALSE, 0)>>
SmallFunc(i) == FuncOf(i, <<SimpleLine(1)>>)
RECURSIVE Rep(_, _)
Rep(l, n) == IF n <= 0 THEN <<>> ELSE <<l>> \o Rep(l, n - 1)
RECURSIVE Funcs(_, _)
Funcs(i, n) == IF i > n THEN <<>> ELSE (IF i > 1 THEN <<Empty>> ELSE <<>>) \o SmallFunc(i) \o Funcs(i + 1, n)

(* ---- width ---------------------------------------------------------------------------------------------- *)
(* a line of the given kind padded to visual width n by the width of one slot; tabAt: a TAB inside a comment *)
(* after `off` characters of text (0: none) so that the tab-stop arithmetic is exercised at every offset      *)
WKinds == {"stmt", "decl", "proto", "define", "linecomment", "blockcomment", "mc_first", "mc_interior", "mc_last",
           "code_then_comment", "stmt_nested", "string_arg", "tabbed_comment", "tabbed_linecomment", "code_then_tabbed_comment"}
WLine(kind, n, off) ==
  CASE kind = "stmt" -> Line("stmt", "IsFunctionCall", Tabs(1) \o <<Slot("f", n - 4 - 9, 7), L("(", 1), V3, L(", ", 2), N1, L(");", 2)>>)
    [] kind = "stmt_nested" -> Line("stmt", "IsFunctionCall", Tabs(3) \o <<Slot("f", n - 12 - 9, 7), L("(", 1), V3, L(", ", 2), N1, L(");", 2)>>)
    [] kind = "string_arg" -> Line("stmt", "IsFunctionCall", Tabs(1) \o <<F4, L("(", 1), Slot("str", n - 4 - 7, 0), L(");", 2)>>)
    [] kind = "decl" -> Line("decl", "IsVarDeclaration", <<TAB1, L("char", 4), TAB1, L("*", 1), Slot("v", n - 12 - 2, 7), L(";", 1)>>)
    [] kind = "proto" -> Line("proto", "IsFuncPrototype", <<L("int", 3), TAB1, Slot("f", n - 4 - 7, 7), L("(void);", 7)>>)
    [] kind = "define" -> Line("define", "IsPreprocessorStatement", <<L("#define ", 8), Slot("m", 4, 1), L(" ", 1), Slot("str", n - 13, 0)>>)
    [] kind = "linecomment" -> Line("comment", "IsComment", <<L("// ", 3), Slot("txt", n - 3, 0)>>)
    [] kind = "blockcomment" -> Line("comment", "IsComment", <<L("/* ", 3), Slot("txt", n - 6, 0), L(" */", 3)>>)
    [] kind = "code_then_comment" -> Line("include", "IsPreprocessorStatement",
                                          <<L("#include <", 10), Slot("inc", 6, 0), L(".h>", 3), L(" // ", 4), Slot("txt", n - 23, 0)>>)
    [] kind = "tabbed_comment" -> Line("comment", "IsComment",
                                       <<L("/* ", 3), Slot("txt", off, 0), TAB1, Slot("txt", n - (3 + off + (4 - ((3 + off) % 4))) - 3, 0), L(" */", 3)>>)
    [] kind = "tabbed_linecomment" -> Line("comment", "IsComment",
                                           <<L("// ", 3), Slot("txt", off, 0), TAB1, Slot("txt", n - (3 + off + (4 - ((3 + off) % 4))), 0)>>)
    [] kind = "code_then_tabbed_comment" -> Line("include", "IsPreprocessorStatement",
                                                 <<L("#include <", 10), Slot("inc", 6, 0), L(".h>", 3), L(" // ", 4), Slot("txt", off, 0), TAB1,
                                                   Slot("txt", n - (23 + off + (4 - ((23 + off) % 4))), 0)>>)
    [] OTHER -> Line("mc", "IsComment", <<>>)
(* three-line block comments whose first / interior / last line has width n *)
McLines(kind, n) ==
  LET long == Slot("txt", n - 3, 0)
      short == Slot("txt", 10, 0)
  IN << Line("mcpart", "IsComment", <<L("/* ", 3), IF kind = "mc_first" THEN long ELSE short>>),
        Line("mcpart", "", <<L("** ", 3), IF kind = "mc_interior" THEN long ELSE short>>),
        Line("mcpart", "", IF kind = "mc_last" THEN <<Slot("txt", n - 3, 0), L(" */", 3)>> ELSE <<L("*/", 2)>>) >>

WidthCases == {[lim |-> "width", kind |-> k, n |-> n, off |-> IF k \in {"tabbed_comment", "tabbed_linecomment", "code_then_tabbed_comment"} THEN o ELSE 0, pos |-> p]
                 : k \in WKinds, n \in 77..86, o \in 1..4, p \in {"top", "afterfunc", "lastline", "lastline_nonl"}}     \* _nonl: the file ends without a final newline
WidthProg(c) ==
  LET inBody == c.kind \in {"stmt", "stmt_nested", "string_arg", "decl"}
      isMc == c.kind \in {"mc_first", "mc_interior", "mc_last"}
      theLines == IF isMc THEN McLines(c.kind, c.n) ELSE <<WLine(c.kind, c.n, c.off)>>
      nested == c.kind = "stmt_nested"
      bdy == IF c.kind = "decl" THEN theLines \o <<Empty, SimpleLine(1)>>
              ELSE IF nested THEN <<Line("ctrl", "IsControlStatement", Tabs(1) \o <<L("while (", 7), V1, L(")", 1)>>), Brace(TRUE, 1),
                                    Line("ctrl", "IsControlStatement", Tabs(2) \o <<L("if (", 4), V1, L(")", 1)>>)>> \o theLines \o <<Brace(FALSE, 1)>>
              ELSE theLines
      f1 == FuncOf(1, IF inBody THEN bdy ELSE <<SimpleLine(1)>>)
      top == IF inBody THEN <<>> ELSE theLines \o <<Empty>>
  IN IF inBody THEN [p |-> HeaderEmpty \o (IF c.pos = "afterfunc" THEN SmallFunc(2) \o <<Empty>> ELSE <<>>) \o f1
                                       \o (IF c.pos \in {"lastline", "lastline_nonl"} THEN <<>> ELSE <<Empty>> \o SmallFunc(3)),
                     line |-> 0, target |-> theLines[1]]
     ELSE IF c.pos = "top" THEN [p |-> HeaderEmpty \o top \o f1, line |-> 0, target |-> theLines[1]]
     ELSE IF c.pos = "afterfunc" THEN [p |-> HeaderEmpty \o f1 \o <<Empty>> \o theLines \o SmallFunc(2), line |-> 0, target |-> theLines[1]]
     ELSE [p |-> HeaderEmpty \o f1 \o <<Empty>> \o theLines, line |-> 0, target |-> theLines[1]]

(* ---- lines ------------------------------------------------------------------------------------------------ *)
(* shapes of the body; the last seven put, somewhere in a body at the limit, a line that the engine splits into two      *)
(* statements (trailing comment, brace on the line of the control statement, "} else {", two instructions, a control     *)
(* statement with its instruction) or a statement / comment that spans several physical lines: the count is a count of   *)
(* LINES, whatever the statements are                                                                                     *)
LineShapes == {"flat", "decls", "braced", "braceless", "mixed", "eolcomment", "samebrace", "elsebrace", "twoinstr", "ctrlstmt",
               "split", "comment3"}
PhysLines(l) == IF l.st = "IsComment3" THEN 3 ELSE 1 + Cardinality({j \in DOMAIN l.items : l.items[j] = NLc})
RECURSIVE PhysSum(_, _)
PhysSum(ls, i) == IF i > Len(ls) THEN 0 ELSE PhysLines(ls[i]) + PhysSum(ls, i + 1)
LinesCases == {[lim |-> "lines", shape |-> s, n |-> n, fidx |-> f] : s \in LineShapes, n \in 22..31, f \in 1..3}
BodyOf(shape, n) ==
  CASE shape = "flat" -> Rep(SimpleLine(1), n)
    [] shape = "decls" -> <<Line("decl", "IsVarDeclaration", <<TAB1, L("int", 3), TAB1, Slot("v", 3, 31), L(";", 1)>>),
                            Line("decl", "IsVarDeclaration", <<TAB1, L("int", 3), TAB1, Slot("v", 3, 32), L(";", 1)>>), Empty>> \o Rep(SimpleLine(1), n - 3)
    [] shape = "braced" -> <<Line("ctrl", "IsControlStatement", Tabs(1) \o <<L("while (", 7), V1, L(")", 1)>>), Brace(TRUE, 1)>>
                           \o Rep(SimpleLine(2), n - 4) \o <<Brace(FALSE, 1), SimpleLine(1)>>
    [] shape = "braceless" -> <<Line("ctrl", "IsControlStatement", Tabs(1) \o <<L("while (", 7), V1, L(")", 1)>>),
                                Line("ctrl", "IsControlStatement", Tabs(2) \o <<L("if (", 4), V1, L(")", 1)>>), SimpleLine(3)>>
                              \o Rep(SimpleLine(1), n - 3)
    [] shape = "mixed" -> <<Line("ctrl", "IsControlStatement", Tabs(1) \o <<L("if (", 4), V1, L(")", 1)>>), SimpleLine(2),
                            Line("ctrl", "IsControlStatement", Tabs(1) \o <<L("else", 4)>>), Brace(TRUE, 1),
                            Line("ctrl", "IsControlStatement", Tabs(2) \o <<L("while (", 7), V1, L(")", 1)>>), SimpleLine(3), Brace(FALSE, 1)>>
                          \o Rep(SimpleLine(1), n - 7)
    [] shape = "eolcomment" -> <<Line("stmt", "IsAssignation", Tabs(1) \o <<V1, L(" = ", 3), N1, L(";", 1), L(" // ", 4), Slot("txt", 6, 0)>>)>>
                               \o Rep(SimpleLine(1), n - 1)
    [] shape = "samebrace" -> <<Line("ctrl", "IsControlStatement", Tabs(1) \o <<L("while (", 7), V1, L(") {", 3)>>)>>
                              \o Rep(SimpleLine(2), n - 3) \o <<Brace(FALSE, 1), SimpleLine(1)>>
    [] shape = "elsebrace" -> <<Line("ctrl", "IsControlStatement", Tabs(1) \o <<L("if (", 4), V1, L(") {", 3)>>), SimpleLine(2),
                                Line("ctrl", "IsControlStatement", Tabs(1) \o <<L("} else {", 8)>>), SimpleLine(2), Brace(FALSE, 1)>>
                              \o Rep(SimpleLine(1), n - 5)
    [] shape = "twoinstr" -> Rep(SimpleLine(1), n - 1) \o <<Line("stmt", "IsAssignation", Tabs(1) \o <<V1, L(" = ", 3), N1, L("; ", 2), V3, L(" = ", 3), N1, L(";", 1)>>)>>
    [] shape = "ctrlstmt" -> Rep(SimpleLine(1), n - 1) \o <<Line("ctrl", "IsControlStatement", Tabs(1) \o <<L("if (", 4), V1, L(") ", 2), V3, L(" = ", 3), N1, L(";", 1)>>)>>
    [] shape = "split" -> <<Line("stmt2", "IsFunctionCall", Tabs(1) \o <<F4, L("(", 1), V1, L(",", 1), NLc>> \o Tabs(2) \o <<N1, L(");", 2)>>)>>
                          \o Rep(SimpleLine(1), n - 2)
    [] shape = "comment3" -> <<SimpleLine(1), Line("comment", "IsComment3", <<L("/*", 2)>>)>> \o Rep(SimpleLine(1), n - 4)
LinesProg(c) ==
  LET before == IF c.fidx >= 2 THEN SmallFunc(2) \o <<Empty>> ELSE <<>>
      before2 == IF c.fidx >= 3 THEN SmallFunc(3) \o <<Empty>> ELSE <<>>
      f == FuncOf(1, BodyOf(c.shape, c.n))
      pre == HeaderEmpty \o before \o before2
  IN [p |-> pre \o f \o <<Empty>> \o SmallFunc(4), line |-> Len(pre) + Len(f), target |-> f[Len(f)]]

(* ---- functions, parameters, variables ------------------------------------------------------------------------ *)
FuncsCases == {[lim |-> "funcs", n |-> n, inter |-> i] : n \in 2..11, i \in {"none", "protos", "comments", "arrays"}}
FuncsProg(c) ==
  LET RECURSIVE Bld(_)
      Bld(i) == IF i > c.n THEN <<>>
                  ELSE (IF i > 1 THEN <<Empty>> ELSE <<>>)
                       \o (IF c.inter = "comments" THEN <<Line("comment", "IsComment", <<L("/* ", 3), Slot("txt", 8, 0), L(" */", 3)>>)>> ELSE <<>>)
                       \o SmallFunc(i) \o Bld(i + 1)
      protos == IF c.inter = "protos" THEN <<Line("proto", "IsFuncPrototype", <<L("int", 3), TAB1, Slot("f", 5, 1), L("(void);", 7)>>),
                                              Line("proto", "IsFuncPrototype", <<L("int", 3), TAB1, Slot("f", 5, 2), L("(void);", 7)>>), Empty>> ELSE <<>>
      (* file-scope statements that look like the beginning of a function (parentheses after a name) but are none *)
      arrays == IF c.inter = "arrays" THEN <<GlobalLine(1, 2, 11, 0, 3, 1, 3), GlobalLine(4, 1, 11, 0, 6, 2, 4), Empty>> ELSE <<>>
  IN [p |-> HeaderEmpty \o protos \o arrays \o Bld(1), line |-> 0, target |-> Empty]

(* shape: "plain" or a callback with k parameters of its own as parameter number min(2, n): its inner commas are not *)
(* parameters of the function                                                                                          *)
RECURSIVE ParamSeq(_, _, _)
ParamSeq(i, n, shape) == IF i > n THEN <<>> ELSE (IF i > 1 THEN <<L(", ", 2)>> ELSE <<>>)
                                       \o (IF shape > 0 /\ i = (IF n >= 2 THEN 2 ELSE 1) THEN FParam(2, i, shape)
                                           ELSE IF i % 3 = 0 THEN <<L("const char", 10), L(" ", 1), L("*", 1), Slot("p", 1, i)>>
                                           ELSE IF i % 3 = 1 THEN <<L("int", 3), L(" ", 1), Slot("p", 1, i)>>
                                           ELSE <<L("char", 4), L(" ", 1), L("**", 2), Slot("p", 2, i)>>) \o ParamSeq(i + 1, n, shape)
ArgsCases == {[lim |-> "args", n |-> n, where |-> w, shape |-> sh] : n \in 1..10, w \in {"def", "proto"}, sh \in 0..3}
ArgsProg(c) ==
  IF c.where = "def"
  THEN LET h == FHead(1, ParamSeq(1, c.n, c.shape)) IN [p |-> HeaderEmpty \o <<h, Brace(TRUE, 0), SimpleLine(1), Brace(FALSE, 0)>>, line |-> 3, target |-> h]
  ELSE LET pr == Line("proto", "IsFuncPrototype", <<L("int", 3), TAB1, Slot("f", 5, 1), L("(", 1)>> \o ParamSeq(1, c.n, c.shape) \o <<L(");", 2)>>)
       IN [p |-> HeaderEmpty \o <<pr, Empty>> \o SmallFunc(2), line |-> 3, target |-> pr]

VarsCases == {[lim |-> "vars", n |-> n, arr |-> a] : n \in 2..11, a \in BOOLEAN}
VarsProg(c) ==
  LET d(i) == Line("decl", "IsVarDeclaration", <<TAB1, L("int", 3), TAB1>> \o (IF c.arr /\ i % 2 = 0 THEN <<L("*", 1)>> ELSE <<>>) \o <<Slot("v", 3, 30 + i)>>
                                                \o (IF c.arr /\ i % 3 = 0 THEN <<L("[", 1), N2, L("]", 1)>> ELSE <<>>) \o <<L(";", 1)>>)
  IN [p |-> HeaderEmpty \o FuncOf(1, [i \in 1..c.n |-> d(i)] \o <<Empty, SimpleLine(1)>>), line |-> 0, target |-> Empty]

Cases == WidthCases \cup LinesCases \cup FuncsCases \cup ArgsCases \cup VarsCases
Limit(c) == CASE c.lim = "width" -> 80 [] c.lim = "lines" -> 25 [] c.lim = "funcs" -> 5 [] c.lim = "args" -> 4 [] c.lim = "vars" -> 5
CodeOf(c) == CASE c.lim = "width" -> "LINE_TOO_LONG" [] c.lim = "lines" -> "TOO_MANY_LINES" [] c.lim = "funcs" -> "TOO_MANY_FUNCS"
               [] c.lim = "args" -> "TOO_MANY_ARGS" [] c.lim = "vars" -> "TOO_MANY_VARS_FUNC"
Build(c) == CASE c.lim = "width" -> WidthProg(c) [] c.lim = "lines" -> LinesProg(c) [] c.lim = "funcs" -> FuncsProg(c)
              [] c.lim = "args" -> ArgsProg(c) [] c.lim = "vars" -> VarsProg(c)

VARIABLE lcase
LInit == /\ lcase \in Cases
         /\ prog = Build(lcase).p /\ phase = "done" /\ nfun = 0 /\ body = 0 /\ open = <<>> /\ elseOK = 0 /\ ndecl = 0
         /\ viol = NoViol /\ scope = << [name |-> "GlobalScope", multi |-> FALSE] >> /\ wrapped = FALSE
LNext == UNCHANGED <<nvars, lcase>>
LSpec == LInit /\ [][LNext]_<<nvars, lcase>>

(* the measure the specification computes for the case is the intended n *)
CountK(k) == Cardinality({i \in DOMAIN prog : prog[i].k = k})
MeasureOK ==
  CASE lcase.lim = "width" -> (~(lcase.kind \in {"mc_first", "mc_interior", "mc_last"}) => LineWidth(Build(lcase).target) = lcase.n)
    [] lcase.lim = "lines" -> PhysSum(BodyOf(lcase.shape, lcase.n), 1) = lcase.n
    [] lcase.lim = "funcs" -> CountK("funchead") = lcase.n
    [] lcase.lim = "args" -> Cardinality({j \in DOMAIN Build(lcase).target.items : Build(lcase).target.items[j].s = "p"}) = lcase.n
    [] lcase.lim = "vars" -> CountK("decl") = lcase.n
Expect == lcase.n > Limit(lcase)
=============================================================================
