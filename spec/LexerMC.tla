------------------------------ MODULE LexerMC ------------------------------
(* Model-checking wrapper of Lexer: export of terminal states as JSON.    *)
EXTENDS Lexer, Json

ExportInv == mode \in {"done", "crash"} => PrintT(<<"EXPORT", ToJson(ExportRec)>>)
=============================================================================
