------------------------------- MODULE EditsMC -------------------------------
EXTENDS Edits, Json
ExportInv == phase = "edited" => PrintT(<<"EXPORT", ToJson([kind |-> FileKind, prog |-> prog, edit |-> edit, viol |-> viol.op])>>)
=============================================================================
