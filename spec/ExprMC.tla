------------------------------- MODULE ExprMC -------------------------------
(* Export of the expression table of a level (one initial state per expression). *)
EXTENDS Expr, Json
CONSTANT Level
VARIABLE e
Init == e \in Exprs(Level)
Next == UNCHANGED e
Spec == Init /\ [][Next]_e
WellFormedInv == WellFormed(e)
ExportInv == PrintT(<<"EXPORT", ToJson([items |-> e, w |-> Width(e)])>>)
=============================================================================
