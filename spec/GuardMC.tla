------------------------------- MODULE GuardMC -------------------------------
EXTENDS Guard, Json
ExportInv == PrintT(<<"EXPORT", ToJson([kind |-> IF gcase.isc THEN "c" ELSE "h", name |-> gcase.name, prog |-> prog, m |-> gcase.mut.m,
                                        syms |-> gcase.mut.syms, code |-> gcase.mut.code, on |-> gcase.mut.on, nth |-> gcase.mut.nth])>>)
=============================================================================
