-------------------------------- MODULE Edits --------------------------------
(***************************************************************************)
(* C05, whole pipeline: every input gets an answer.  A completed           *)
(* derivation (conforming, or with one violation) receives ONE bounded     *)
(* edit at the level of its lexical items: truncation after an item,       *)
(* deletion, insertion or replacement by one of the item kinds below, or   *)
(* a swap of two neighbours.  The engine model says what may happen next:  *)
(* the main loop consumes at least one token per iteration, so the run     *)
(* ends, with a verdict or with the one controlled fatal error.            *)
(* TLC enumerates EVERY edit of every selected derivation (exhaustive, no  *)
(* randomness: the universe must be the same under every seed).            *)
(***************************************************************************)
EXTENDS Viol

CONSTANTS SelMod, SelRes     \* which derivations are edited: a structural selector (see Selected)

VARIABLE edit
evars == <<nvars, edit>>

Kinds == << L("(", 1), L(")", 1), L("{", 1), L("}", 1), L("[", 1), L(";", 1), L(",", 1), L("*", 1), L(" = ", 3),
            L("if ", 3), L("else", 4), L("return ", 7), L("int ", 4), L("#", 1), L("\"", 1), L("/*", 2), V1, N1 >>

Count(k) == Cardinality({i \in DOMAIN prog : prog[i].k = k})
Selected == (Count("ctrl") * 7 + Count("stmt") * 3 + Count("decl") * 5 + Len(prog)) % SelMod = SelRes

Sites == {<<i, j>> \in (DOMAIN prog) \X (1..9) : j <= Len(prog[i].items)}
Rp(i, its) == [prog EXCEPT ![i].items = its]
Ready == IF WithViol THEN phase = "violated" ELSE phase = "done"

EditStep ==
    /\ Ready /\ Selected
    /\ \E s \in Sites :
        LET i == s[1]
            j == s[2]
            its == prog[i].items
        IN \/ /\ prog' = SubSeq(Rp(i, SubSeq(its, 1, j)), 1, i)            \* the file stops after item j of line i
              /\ edit' = [op |-> "truncate", line |-> i, item |-> j, kind |-> 0]
           \/ /\ prog' = Rp(i, SubSeq(its, 1, j - 1) \o SubSeq(its, j + 1, Len(its)))
              /\ edit' = [op |-> "delete", line |-> i, item |-> j, kind |-> 0]
           \/ /\ j < Len(its)
              /\ prog' = Rp(i, SubSeq(its, 1, j - 1) \o <<its[j + 1], its[j]>> \o SubSeq(its, j + 2, Len(its)))
              /\ edit' = [op |-> "swap", line |-> i, item |-> j, kind |-> 0]
           \/ \E k \in DOMAIN Kinds :
              \/ /\ prog' = Rp(i, SubSeq(its, 1, j - 1) \o <<Kinds[k]>> \o SubSeq(its, j, Len(its)))
                 /\ edit' = [op |-> "insert", line |-> i, item |-> j, kind |-> k]
              \/ /\ prog' = Rp(i, SubSeq(its, 1, j - 1) \o <<Kinds[k]>> \o SubSeq(its, j + 1, Len(its)))
                 /\ edit' = [op |-> "replace", line |-> i, item |-> j, kind |-> k]
    /\ phase' = "edited"
    /\ UNCHANGED <<nfun, body, open, elseOK, ndecl, viol, scope, wrapped>>

EInit == Init /\ edit = [op |-> "none", line |-> 0, item |-> 0, kind |-> 0]
ENext == (VNext /\ UNCHANGED edit) \/ EditStep
ESpec == EInit /\ [][ENext]_evars

(* the engine-side statement: whatever the token list, the loop consumes at least one token per iteration *)
(* (Engine part of Norm.tla: every action either appends a statement or skips one token), so the only       *)
(* outcomes are a verdict and the controlled fatal error.  The harness checks exactly that on every edit.  *)
EditedWellFormed == phase = "edited" => edit.op # "none"
=============================================================================
