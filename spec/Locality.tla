------------------------------ MODULE Locality ------------------------------
(***************************************************************************)
(* C19: diagnostics are local -- unrelated text only shifts them.          *)
(* A completed derivation (conforming or with one violation) is paired     *)
(* with a transformed one:                                                 *)
(*   L1  the same file without its 42 header (and the empty line after it) *)
(*       D(with) = shift(D(without) minus INVALID_HEADER, 12)              *)
(*   L2  a comment line inserted at a top-level boundary k                 *)
(*       D(after) = {d : line < k}  union  shift({d : line >= k}, 1)       *)
(*   L3  a further conforming function appended (fewer than five so far)   *)
(*       D(after) = D(before)                                              *)
(* The laws are properties of the ENGINE model (comments transparent to    *)
(* Update and to the history look-backs, nothing carried from one          *)
(* definition to the next); TLC enumerates derivations x boundaries.       *)
(***************************************************************************)
EXTENDS Viol

VARIABLES prog2, law
lvars == <<nvars, prog2, law>>

IsTopRbrace(j) == prog[j].k = "rbrace" /\ LeadTabs(prog[j].items) = 0
OpensBlock(a) == prog[a].k \in {"funchead", "utype"}
                 /\ \/ (a < Len(prog) /\ prog[a + 1].k = "lbrace")
                    \/ (prog[a].items # <<>> /\ IsLit(prog[a].items[Len(prog[a].items)], " {"))      \* "f(void) {" (a violation)
Inside(i) == \E a \in 1..(i - 1) : OpensBlock(a) /\ ~\E j \in (a + 1)..(i - 1) : IsTopRbrace(j)
(* a comment may be inserted BEFORE line k: k is at top level, not inside the header area, and the line above is *)
(* not a continuation                                                                                         *)
(* not between two consecutive empty lines (itself a violation that the comment would repair) *)
Boundaries == {k \in 3..Len(prog) : /\ ~Inside(k) /\ prog[k].k \notin {"lbrace"} /\ prog[1].k = "header42"
                                    /\ ~(prog[k].k \in {"empty", "empty_ws"} /\ prog[k - 1].k \in {"empty", "empty_ws"})}
NewComment(c) == IF c = 1 THEN Line("comment", "IsComment", <<L("/* ", 3), Slot("txt", 11, 0), L(" */", 3)>>)
                 ELSE IF c = 2 THEN Line("comment", "IsComment", <<L("// ", 3), Slot("txt", 9, 0)>>)
                 ELSE Line("comment", "IsComment", <<L("/*", 2), Slot("txt", 7, 0), L("*/", 2)>>)
NewFunc == << Empty,
              Line("funchead", "IsFuncDeclaration", <<L("static int", 10), TAB1, Slot("f", 7, 90), L("(char *", 7), Slot("p", 3, 91), L(", int ", 6), Slot("p", 1, 92), L(")", 1)>>),
              Line("lbrace", "IsBlockStart", <<L("{", 1)>>),
              Line("decl", "IsVarDeclaration", <<TAB1, L("int", 3), TAB1, Slot("v", 3, 93), L(";", 1)>>),
              Empty,
              Line("stmt", "IsAssignation", <<TAB1, Slot("v", 3, 93), L(" = ", 3), N1, L(";", 1)>>),
              Line("ctrl", "IsControlStatement", <<TAB1, L("while (", 7), Slot("p", 3, 91), L("[", 1), Slot("v", 3, 93), L("])", 2)>>),
              Line("stmt", "IsAssignation", <<TAB1, TAB1, Slot("v", 3, 93), L("++", 2), L(";", 1)>>),
              Line("stmt", "IsExpressionStatement", <<TAB1, L("return (", 8), Slot("v", 3, 93), L(" + ", 3), Slot("p", 1, 92), L(");", 2)>>),
              Line("rbrace", "IsBlockEnd", <<L("}", 1)>>) >>

Ready == IF WithViol THEN phase = "violated" ELSE phase = "done"
Transform ==
    /\ Ready
    /\ \/ /\ prog[1].k = "header42" /\ Len(prog) >= 3 /\ prog[2].k = "empty" /\ viol.op \notin {"empty_at_file_start", "no_header"}
          /\ prog2' = SubSeq(prog, 3, Len(prog))
          /\ law' = [t |-> "L1", k |-> 0, shift |-> 12]
       \/ /\ Boundaries # {}
          /\ \E k \in (IF Sim THEN Pick(Boundaries) ELSE Boundaries), c \in (IF Sim THEN Pick(1..3) ELSE 1..3) :
               /\ prog2' = SubSeq(prog, 1, k - 1) \o <<NewComment(c)>> \o SubSeq(prog, k, Len(prog))
               /\ law' = [t |-> "L2", k |-> k, shift |-> 1]
       \/ /\ FileKind = "c" /\ nfun >= 1 /\ nfun < 5 /\ viol.op \notin {"empty_at_eof", "too_many_funcs"}
          /\ prog2' = prog \o NewFunc
          /\ law' = [t |-> "L3", k |-> Len(prog) + 1, shift |-> 0]
    /\ phase' = "paired"
    /\ UNCHANGED <<prog, nfun, body, open, elseOK, ndecl, viol, scope, wrapped>>

LInit0 == Init /\ prog2 = <<>> /\ law = [t |-> "", k |-> 0, shift |-> 0]
LNext0 == (VNext /\ UNCHANGED <<prog2, law>>) \/ Transform
LocSpec == LInit0 /\ [][LNext0]_lvars

(* the engine model's side of the laws: the transformed derivation is still a derivation whose extra lines are *)
(* comments / a complete function at file level, so the scope chain at every untouched line is unchanged       *)
PairWellFormed == phase = "paired" =>
    /\ law.t = "L2" => (Len(prog2) = Len(prog) + 1 /\ prog2[law.k].k = "comment" /\ ~Inside(law.k))
    /\ law.t = "L1" => Len(prog2) = Len(prog) - 2
    /\ law.t = "L3" => Len(prog2) = Len(prog) + Len(NewFunc)
=============================================================================
