------------------------------- MODULE Garbage -------------------------------
(***************************************************************************)
(* C07, second half: text that no rule recognises is never dropped while   *)
(* the file is still reported OK.  An unrecognisable fragment (a line made *)
(* of tokens that cannot begin or form a statement) is inserted at a       *)
(* statement boundary of a completed conforming derivation, with or        *)
(* without a final newline when it is the last line.  The engine model     *)
(* allows two outcomes: the fragment is skipped token by token and the run *)
(* ends with the fatal "Unrecognized line", or some rule claims it and     *)
(* reports on that line.  A silent OK is the violation.                    *)
(***************************************************************************)
EXTENDS Viol

CONSTANTS GSelMod, GSelRes      \* structural selector of the derivations that receive fragments (exhaustive mode)

VARIABLE garb
gvars == <<nvars, garb>>
GCount(k) == Cardinality({i \in DOMAIN prog : prog[i].k = k})
GSelected == Sim \/ (GCount("ctrl") * 7 + GCount("stmt") * 3 + GCount("decl") * 5 + Len(prog)) % GSelMod = GSelRes

Fragments == << <<L(") ) )", 5)>>, <<L("] ", 2), V1>>, <<L("== ==", 5)>>, <<S5>>, <<L("@ ", 2), V1>>, <<L(", , ,", 5)>>,
                <<L("-> ->", 5)>>, <<L("} ", 2), V1>>, <<L(". . .", 5)>>, <<L("? ?", 3)>>, <<L(": :", 3)>>, <<L("* / %", 5)>> >>

IsTopRb(j) == prog[j].k = "rbrace" /\ LeadTabs(prog[j].items) = 0
InFunc(i) == \E a \in 1..(i - 1) : prog[a].k = "funchead" /\ ~\E j \in (a + 1)..(i - 1) : IsTopRb(j)
InType(i) == \E a \in 1..(i - 1) : prog[a].k = "utype" /\ a < Len(prog) /\ prog[a + 1].k = "lbrace" /\ ~\E j \in (a + 1)..(i - 1) : IsTopRb(j)
(* boundaries: before line i (3 <= i <= Len), or after the last line (i = Len + 1); not between a head and its brace *)
GBoundaries == {i \in 3..(Len(prog) + 1) : i = Len(prog) + 1 \/ prog[i].k # "lbrace"}
DepthAt(i) == IF i > Len(prog) THEN 0
              ELSE IF prog[i].k \in {"stmt", "ctrl", "decl", "rbrace", "field", "enumval"} THEN
                   (IF prog[i].k = "rbrace" THEN LeadTabs(prog[i].items) + 1 ELSE LeadTabs(prog[i].items))
              ELSE IF InFunc(i) THEN 1 ELSE 0

Max2(a, b) == IF a >= b THEN a ELSE b

GarbageStep ==
    /\ phase = "done" /\ ~WithViol /\ GSelected
    /\ \E i \in (IF Sim THEN Pick(GBoundaries) ELSE GBoundaries), f \in (IF Sim THEN Pick(DOMAIN Fragments) ELSE DOMAIN Fragments),
          nonl \in BOOLEAN :
        /\ nonl => i = Len(prog) + 1
        /\ LET d == IF i <= Len(prog) /\ (InFunc(i) \/ InType(i)) THEN Max2(DepthAt(i), 1) ELSE 0
               gl == Line("garbage", "", Tabs(d) \o Fragments[f])
           IN prog' = SubSeq(prog, 1, i - 1) \o <<gl>> \o SubSeq(prog, i, Len(prog))
        /\ garb' = [frag |-> f, at |-> i, nonl |-> nonl,
                    where |-> IF i > Len(prog) THEN "eof" ELSE IF InFunc(i) THEN "body" ELSE IF InType(i) THEN "type" ELSE "top",
                    next |-> IF i > Len(prog) THEN "EOF" ELSE prog[i].k, prev |-> prog[i - 1].k]
    /\ phase' = "garbled"
    /\ UNCHANGED <<nfun, body, open, elseOK, ndecl, viol, scope, wrapped>>
GInit0 == Init /\ garb = [frag |-> 0, at |-> 0, nonl |-> FALSE, where |-> "", next |-> "", prev |-> ""]
GNext0 == (Next /\ UNCHANGED garb) \/ GarbageStep
GarbSpec == GInit0 /\ [][GNext0]_gvars
GarbWellFormed == phase = "garbled" => (garb.frag \in DOMAIN Fragments /\ prog[garb.at].k = "garbage")
=============================================================================
