------------------------------ MODULE EngineMC ------------------------------
(***************************************************************************)
(* Model checking of the DESIGN of the statement / scope engine            *)
(* (Engine.tla): the machine is driven with every well-bracketed sequence  *)
(* of statement events of a function body / a type block up to a bound,    *)
(* next to an independent book-keeping of what was fed (a stack of open    *)
(* control statements and a count of the line breaks seen since the        *)
(* opening brace).  The invariants say that the machine's scope chain and  *)
(* line counters are the ones the Norm's limits are defined over:          *)
(*   DepthMatches   the chain is as deep as the number of open constructs  *)
(*   LinesConserved no line break is lost or counted twice, whatever the   *)
(*                  nesting: the lines held by the scopes of the function  *)
(*                  add up to the line breaks seen since its opening brace *)
(*   FuncLinesExact at function level the Function scope holds exactly     *)
(*                  them (this is what TOO_MANY_LINES reads, C03)          *)
(*   DepthBack      after the closing brace the chain is the file scope    *)
(*   WellFormed     Engine!ScopeWellFormed                                 *)
(* EngineTrace.tla binds the same Engine!Step to the implementation event  *)
(* by event, so a design error found here is an implementation error and a *)
(* departure of the implementation from the design is seen there.          *)
(***************************************************************************)
EXTENDS Engine, Json

CONSTANTS MaxEvents,      \* events per behaviour
          MaxOpen         \* open control statements

VARIABLES ch, sub, hist, phase, stack, cnt, nev, glines,
          log       \* history variable (not in the VIEW): the events fed and the chain after each, for replay into the code
evars == <<ch, sub, hist, phase, stack, cnt, nev, glines, log>>

Ev(rule, nl) == [rule |-> rule, nl |-> nl, nextLBrace |-> FALSE, opensControl |-> FALSE, opensType |-> FALSE,
                 isEnum |-> FALSE, leakedOuter |-> FALSE]

Feed(ev) == LET r == Step(ch, sub, hist, ev) IN
            /\ ch' = r.ch /\ sub' = r.sub /\ hist' = Append(hist, ev.rule) /\ nev' = nev + 1
            /\ log' = Append(log, [rule |-> ev.rule, nl |-> ev.nl, isEnum |-> ev.isEnum,
                                    names |-> [i \in DOMAIN r.ch |-> r.ch[i].name], multi |-> [i \in DOMAIN r.ch |-> r.ch[i].multi],
                                    lines |-> [i \in DOMAIN r.ch |-> r.ch[i].lines]])

(* my own book-keeping: "brace" = a braced control body is open, "single" = a control statement waits for its statement *)
RECURSIVE PopSingles(_)
PopSingles(st) == IF st # <<>> /\ st[Len(st)] = "single" THEN PopSingles(SubSeq(st, 1, Len(st) - 1)) ELSE st

EInit == /\ ch = GlobalChain /\ sub = NoSub /\ hist = <<>> /\ phase = "top" /\ stack = <<>> /\ cnt = 0 /\ nev = 0 /\ glines = 0 /\ log = <<>>

TopTrivia == /\ phase = "top" /\ \E r \in Trivia : Feed(Ev(r, 1))
             /\ glines' = glines + 1 /\ UNCHANGED <<phase, stack, cnt>>
FuncDecl == /\ phase = "top" /\ Feed([Ev("IsFuncDeclaration", 1) EXCEPT !.nextLBrace = TRUE])
            /\ phase' = "needbrace" /\ glines' = glines + 1 /\ cnt' = 0 /\ UNCHANGED stack
(* (no trivia event between the declarator and its brace: the replay showed that IsFuncDeclaration consumes a comment *)
(* that follows the declarator as part of its own statement)                                                          *)
FuncOpen == /\ phase = "needbrace" /\ Feed(Ev("IsBlockStart", 1))
            /\ phase' = "body" /\ stack' = <<>> /\ UNCHANGED <<cnt, glines>>
BodyTrivia == /\ phase = "body" /\ \E r \in Trivia : Feed(Ev(r, 1))
              /\ cnt' = cnt + 1 /\ UNCHANGED <<phase, stack, glines>>
Simple == /\ phase = "body" /\ \E nl \in 1..2 : (Feed(Ev("IsExpressionStatement", nl)) /\ cnt' = cnt + nl)
          /\ stack' = PopSingles(stack) /\ UNCHANGED <<phase, glines>>
(* a loop with an empty body ("while (x)" + line break + ";"): one control statement of two lines that opens no scope *)
NullLoop == /\ phase = "body" /\ Feed(Ev("IsControlStatement", 2)) /\ cnt' = cnt + 2
            /\ stack' = PopSingles(stack) /\ UNCHANGED <<phase, glines>>
Control == /\ phase = "body" /\ Len(stack) < MaxOpen
           /\ Feed([Ev("IsControlStatement", 1) EXCEPT !.opensControl = TRUE])
           /\ stack' = Append(stack, "single") /\ cnt' = cnt + 1 /\ UNCHANGED <<phase, glines>>
(* the brace of a control statement follows it directly (possibly after trivia, which the history walk skips) *)
ControlBrace == /\ phase = "body" /\ stack # <<>> /\ stack[Len(stack)] = "single"
                /\ Feed(Ev("IsBlockStart", 1))
                /\ stack' = [stack EXCEPT ![Len(stack)] = "brace"] /\ cnt' = cnt + 1 /\ UNCHANGED <<phase, glines>>
CloseBrace == /\ phase = "body" /\ stack # <<>> /\ stack[Len(stack)] = "brace"
              /\ Feed(Ev("IsBlockEnd", 1))
              /\ stack' = PopSingles(SubSeq(stack, 1, Len(stack) - 1)) /\ cnt' = cnt + 1 /\ UNCHANGED <<phase, glines>>
FuncClose == /\ phase = "body" /\ stack = <<>>
             /\ Feed(Ev("IsBlockEnd", 1))
             /\ phase' = "top" /\ glines' = glines + cnt + 1 /\ cnt' = 0 /\ UNCHANGED stack
             \* + 1: the line of the opening brace; the line of the closing brace stays with the scope that is dropped
(* a type block at file level: struct s_x { fields } ; *)
TypeOpen == /\ phase = "top" /\ \E en \in BOOLEAN : Feed([Ev("IsUserDefinedType", 1) EXCEPT !.opensType = TRUE, !.isEnum = en])
            /\ phase' = "typebrace" /\ glines' = glines + 1 /\ UNCHANGED <<stack, cnt>>
TypeBrace == /\ phase = "typebrace" /\ Feed(Ev("IsBlockStart", 1)) /\ phase' = "type" /\ cnt' = 0 /\ UNCHANGED <<stack, glines>>
Field == /\ phase = "type" /\ Feed(Ev("IsVarDeclaration", 1)) /\ cnt' = cnt + 1 /\ UNCHANGED <<phase, stack, glines>>
TypeClose == /\ phase = "type" /\ Feed(Ev("IsBlockEnd", 1)) /\ phase' = "top" /\ glines' = glines + cnt + 1 /\ cnt' = 0 /\ UNCHANGED stack

ENext == /\ nev < MaxEvents
         /\ \/ TopTrivia \/ FuncDecl \/ FuncOpen \/ BodyTrivia \/ Simple \/ NullLoop \/ Control \/ ControlBrace \/ CloseBrace
            \/ FuncClose \/ TypeOpen \/ TypeBrace \/ Field \/ TypeClose
ESpec == EInit /\ [][ENext]_evars

RECURSIVE SumLines(_, _)
SumLines(c, i) == IF i > Len(c) THEN 0 ELSE c[i].lines + SumLines(c, i + 1)

WellFormed == ScopeWellFormed(ch)
DepthMatches == /\ phase = "top" => Len(ch) = 1
                /\ phase = "body" => Len(ch) = 2 + Len(stack)
                /\ phase = "type" => Len(ch) = 2
DepthBack == phase = "top" => (Len(ch) = 1 /\ ch[1].name = "GlobalScope" /\ sub = NoSub)
LinesConserved == phase \in {"body", "type"} => SumLines(ch, 2) = cnt + 1
FuncLinesExact == (phase = "body" /\ stack = <<>>) => (Top(ch).name = "Function" /\ Top(ch).lines = cnt + 1)
GlobalLines == phase = "top" => ch[1].lines = glines
(* Step reads the history only through its last significant item and the number of trivia after it *)
RECURSIVE TrailingTrivia(_, _)
TrailingTrivia(h, i) == IF i >= 1 /\ h[i] \in Trivia THEN 1 + TrailingTrivia(h, i - 1) ELSE 0
HistAbs == LET t == TrailingTrivia(hist, Len(hist)) IN <<t, IF Len(hist) - t >= 1 THEN hist[Len(hist) - t] ELSE "">>
EView == <<ch, sub, HistAbs, phase, stack, cnt, glines>>
NamesMatch == phase = "body" => /\ ch[2].name = "Function" /\ ch[2].multi
                                /\ \A i \in 1..Len(stack) : /\ ch[2 + i].name = "ControlStructure"
                                                            /\ ch[2 + i].multi = (stack[i] = "brace")
(* behaviours for the replay into the code (direction A for the engine): a closed function / type block just ended *)
ExportInv == (phase = "top" /\ nev >= 3 /\ hist[Len(hist)] = "IsBlockEnd") => PrintT(<<"EXPORT", ToJson([log |-> log])>>)
=============================================================================
