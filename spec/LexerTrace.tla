---------------------------- MODULE LexerTrace ----------------------------
(***************************************************************************)
(* Trace validation for the tokenizer (conformance direction B).           *)
(*                                                                         *)
(* Input: a JSON array of traces recorded from the real Lexer; each is     *)
(*   [id, src: Seq(Char), toks: Seq([t, x: Seq(Char), l, c, e]),           *)
(*    bad: Seq(<<l, c>>)  -- positions of BAD_LEXEME diagnostics,          *)
(*    exc: "" | exception name]                                            *)
(* where e is the raw offset just after the token (the lexer's own cursor).*)
(*                                                                         *)
(* Every token event must be explained:                                    *)
(*   C10  there is a start offset s >= pos such that the gap pos..s-1 is   *)
(*        made of line splices and reported bad lexemes only and the       *)
(*        token text is NormText(type, s, e);                              *)
(*   C09  the logged (line, col) is the true position of s;                *)
(*   MACH the token is the one the Lexer.tla machine produces at s         *)
(*        (strict conformance with the implementation-shaped model; soft). *)
(* The unlogged start offset s is inferred.  Verdicts are total: one       *)
(* VERDICT line per trace, naming the first failing event per law.         *)
(***************************************************************************)
EXTENDS Lexer, Json, IOUtils

VARIABLES tid,   \* index of the trace being validated
          i,     \* index of the next token event
          usedBad, \* number of BAD_LEXEME diagnostics explained so far
          f09, f10, fmach,  \* 0 = law holds so far, else index of first failing event
          mk                \* cursor of the Lexer.tla machine run alongside (Dev = the known deviations)

tvars == <<vars, tid, i, usedBad, f09, f10, fmach, mk>>

(* parsed once: TLC re-evaluates a zero-arity definition that calls a Java override every time *)
ASSUME TLCSet(7, JsonDeserialize(IOEnv.TRACE_FILE))
Traces == TLCGet(7)
T == Traces[tid]

(* the independent scanner in linear form: position after reading raw a..s-1 from (l, c) *)
RECURSIVE PosAfter(_, _, _, _)
PosAfter(a, s, l, c) == IF a >= s THEN <<l, c>>
                        ELSE IF src[a] = NL THEN PosAfter(a + 1, s, l + 1, 1)
                        ELSE IF src[a] = TAB THEN PosAfter(a + 1, s, l, c + TabW(c))
                        ELSE PosAfter(a + 1, s, l, c + 1)

(* normalised text of raw s..e-1 with the column threaded through (same law as NormText) *)
RECURSIVE NormC(_, _, _, _, _)
NormC(a, e, quoted, tabs, c) ==
    IF a >= e THEN <<>>
    ELSE IF IsSpliceAt(a) /\ a + SpliceW(a) <= e THEN NormC(a + SpliceW(a), e, quoted, tabs, 1)
    ELSE LET t == Tr(a)
             n == Tr(a + t.w)
         IN  IF quoted /\ t.c = BSL /\ n.w > 0 /\ a + t.w + n.w <= e
             THEN <<BSL, n.c>> \o NormC(a + t.w + n.w, e, quoted, tabs,
                                        IF n.c = TAB THEN c + t.w + TabW(c + t.w) ELSE c + t.w + n.w)
             ELSE IF t.c = TAB THEN (IF tabs THEN Spaces(TabW(c)) ELSE <<TAB>>)
                                    \o NormC(a + t.w, e, quoted, tabs, c + TabW(c))
             ELSE IF t.c = NL THEN <<NL>> \o NormC(a + t.w, e, quoted, tabs, 1)
             ELSE <<t.c>> \o NormC(a + t.w, e, quoted, tabs, c + t.w)

BadSet == {<<T.bad[j][1], T.bad[j][2]>> : j \in DOMAIN T.bad}

(* the maximal gap from a: line splices between tokens and characters reported as bad lexemes.    *)
(* A token never starts with either, so the start s of the next token is determined.             *)
RECURSIVE GapEnd(_, _, _, _)
GapEnd(a, l, c, nb) ==
    IF a > N THEN [s |-> a, l |-> l, c |-> c, nb |-> nb]
    ELSE IF IsSpliceAt(a) THEN GapEnd(a + SpliceW(a), l + 1, 1, nb)
    ELSE IF <<l, c>> \in BadSet THEN GapEnd(a + Tr(a).w, l, c + Tr(a).w, nb + 1)
    ELSE [s |-> a, l |-> l, c |-> c, nb |-> nb]

HasNL(x) == \E j \in DOMAIN x : x[j] = NL
DiagSet(ds) == {<<ds[j].code, ds[j].level, ds[j].hl>> : j \in DOMAIN ds}

Quoted(t) == t \in {"STRING", "CHAR_CONST"}

(* the machine's next token from cursor k: skips and bad lexemes are machine steps of their own *)
RECURSIVE MachTok(_, _)
MachTok(k, st) == LET r == LexAt(k) IN
                  IF r.kind \in {"skip", "bad"}
                  THEN LET n == MachTok(r.k, st \cup r.dv) IN [n EXCEPT !.d = r.d \o @]
                  ELSE [r |-> r, k |-> k, st |-> st \cup r.dv, d |-> r.d]

TInit == /\ tid = 1 /\ i = 1 /\ usedBad = 0 /\ f09 = 0 /\ f10 = 0 /\ fmach = 0
         /\ src = Traces[1].src /\ pos = 1 /\ line = 1 /\ col = 1
         /\ segs = {} /\ diags = <<>> /\ sites = {} /\ mode = "run"      \* segs: here the set of gap positions
         /\ mk = Cur(1, 1, 1)

Fail(f, n) == IF f = 0 THEN n ELSE f

(* positions of the raw characters a..s-1 (what a diagnostic about a skipped character may point at) *)
RECURSIVE GapPositions(_, _, _, _)
GapPositions(a, s, l, c) == IF a >= s THEN {}
                            ELSE {<<l, c>>} \cup LET q == PosAfter(a, a + 1, l, c) IN GapPositions(a + 1, s, q[1], q[2])

TokEvent ==
    /\ tid <= Len(Traces) /\ i <= Len(T.toks)
    /\ LET ev == T.toks[i]
           g  == GapEnd(pos, line, col, 0)        \* C10: the start is determined by the tiling law
           valid == ev.e > pos /\ ev.e <= N + 1
           textAt(s, c) == NormC(s, ev.e, Quoted(ev.t), ev.t = "MULT_COMMENT", c) = ev.x
           has == /\ valid /\ ev.e > g.s
                  /\ textAt(g.s, g.c)
                  /\ (HasNL(ev.x) => ev.t \in {"NEWLINE", "MULT_COMMENT", "STRING"})
           (* C09 alone: SOME start whose span carries the token text lies at the logged position *)
           at(s) == PosAfter(pos, s, line, col)
           S9 == IF has /\ <<g.l, g.c>> = <<ev.l, ev.c>> THEN {g.s}
                 ELSE IF ~valid THEN {}
                 ELSE {s \in pos..(ev.e - 1) : at(s) = <<ev.l, ev.c>>}
           T9 == {s \in S9 : textAt(s, at(s)[2])}
           anyText == valid /\ \E s \in pos..(ev.e - 1) : textAt(s, at(s)[2])
           ok9 == IF ~valid THEN TRUE                     \* cannot be judged: C10 reports it
                  ELSE IF anyText THEN T9 # {} ELSE S9 # {}
           s9 == IF T9 # {} THEN CHOOSE x \in T9 : TRUE ELSE IF S9 # {} THEN CHOOSE x \in S9 : TRUE ELSE g.s
           epos == IF valid THEN PosAfter(pos, ev.e, line, col) ELSE <<line, col>>
           mt == MachTok(mk, {})
           m  == mt.r
           mok == /\ m.kind = "tok" /\ m.type = ev.t /\ m.text = ev.x /\ m.k.p = ev.e
                  /\ <<mt.k.l, mt.k.c>> = <<ev.l, ev.c>>
       IN  /\ f10' = IF has THEN f10 ELSE Fail(f10, i)
           /\ f09' = IF ok9 THEN f09 ELSE Fail(f09, i)
           /\ fmach' = IF mok THEN fmach ELSE Fail(fmach, i)
           /\ mk' = IF mok THEN m.k ELSE Cur(IF valid THEN ev.e ELSE pos, epos[1], epos[2])
           /\ sites' = sites \cup mt.st
           /\ diags' = IF mok THEN diags \o mt.d ELSE diags
           /\ usedBad' = IF valid /\ ev.e > g.s THEN usedBad + g.nb ELSE usedBad
           /\ segs' = IF valid THEN segs \cup GapPositions(pos, Min(s9, ev.e), line, col) ELSE segs
           /\ pos' = IF valid THEN ev.e ELSE pos
           /\ line' = epos[1] /\ col' = epos[2]
    /\ i' = i + 1
    /\ UNCHANGED <<src, mode, tid>>

EndEvent ==
    /\ tid <= Len(Traces) /\ i = Len(T.toks) + 1
    /\ LET g == GapEnd(pos, line, col, 0)
           c10 == IF f10 # 0 THEN f10
                  ELSE IF T.exc = "" /\ (g.s # N + 1 \/ usedBad + g.nb # Len(T.bad)) THEN i ELSE 0
           gp  == segs \cup GapPositions(pos, N + 1, line, col)
           c09 == IF f09 # 0 THEN f09
                  ELSE IF \E b \in BadSet : b \notin gp THEN i ELSE 0
           c05 == IF T.exc = "" /\ Len(T.toks) <= N THEN 0 ELSE i
           mt  == MachTok(mk, {})
           cm  == IF fmach # 0 THEN fmach
                  ELSE IF T.exc = "" /\ mt.r.kind # "eof" THEN i
                  ELSE IF T.exc = "" /\ DiagSet(diags \o mt.d) # DiagSet(T.diags) THEN i ELSE 0
       IN PrintT(<<"VERDICT", T.id, c05, c09, c10, cm, sites \cup mt.st>>)
    /\ tid' = tid + 1 /\ i' = 1 /\ usedBad' = 0 /\ f09' = 0 /\ f10' = 0 /\ fmach' = 0
    /\ mk' = Cur(1, 1, 1) /\ sites' = {} /\ diags' = <<>> /\ segs' = {}
    /\ src' = IF tid + 1 <= Len(Traces) THEN Traces[tid + 1].src ELSE <<>>
    /\ pos' = 1 /\ line' = 1 /\ col' = 1
    /\ UNCHANGED <<mode>>

TNext == TokEvent \/ EndEvent
TSpec == TInit /\ [][TNext]_tvars

(* all traces consumed: checked as POSTCONDITION-like invariant on the final state *)
AllConsumed == TLCGet("stats").diameter >= 1
=============================================================================
