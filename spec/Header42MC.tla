----------------------------- MODULE Header42MC -----------------------------
EXTENDS Header42, Json
ExportInv == PrintT(<<"EXPORT", ToJson([kind |-> "c", prog |-> prog, m |-> hcase.mut.m, expect |-> hcase.mut.expect, shape |-> hcase.shape,
                                        bidx |-> hcase.bidx])>>)
=============================================================================
