------------------------------ MODULE Literals ------------------------------
(***************************************************************************)
(* C11: C literals are classified as C defines them.                       *)
(*                                                                         *)
(* INTENT-SHAPED generator of the constants of C11 6.4.4 (plus the         *)
(* extensions the property names) and of the malformed families of         *)
(* DESIGN 4.11, written from the C grammar and independent of the          *)
(* implementation's regular expressions.  Each literal is put into a       *)
(* context (text before / after) and the tokenizer machine of Lexer.tla    *)
(* -- the transcription of the implementation -- is run on it.  At the     *)
(* final state the expectation is evaluated on the machine's tokens and    *)
(* diagnostics (ClassOK) and exported together with the behaviour, so that *)
(* (1) every disagreement between the C grammar and the transcribed        *)
(* implementation is found by TLC inside the model, and (2) the real       *)
(* Lexer is replayed on the same inputs and judged by the same law.        *)
(***************************************************************************)
EXTENDS Lexer

CONSTANTS Level      \* 1 = quick bounds, 2 = thorough bounds

(* ---- helpers ----------------------------------------------------------- *)
Cat(X, Y)      == {x \o y : x \in X, y \in Y}
Cat3(X, Y, Z)  == Cat(Cat(X, Y), Z)
Str(D, lo, hi) == UNION {[1..n -> D] : n \in lo..hi}      \* all strings over D with lo..hi characters
One(D)         == {<<d>> : d \in D}
Opt(X)         == X \cup {<<>>}
S(str)         == str                                      \* readability: a literal sequence

NonZero == Digit \ {"0"}
BinDigit == {"0", "1"}
HexLetters == {"a","b","c","d","e","f","A","B","C","D","E","F"}

(* ---- suffixes (C11 6.4.4.1/6.4.4.2 + the extensions named by the property) ---- *)
SufU   == {<<"u">>, <<"U">>}
SufL   == {<<"l">>, <<"L">>, <<"l","l">>, <<"L","L">>}
SufZ   == {<<"z">>, <<"Z">>}
SufWB  == {<<"w","b">>, <<"W","B">>}
SufI64 == {<<"i","6","4">>, <<"I","6","4">>}
IntSufValid == {<<>>} \cup SufU \cup SufL \cup SufZ \cup SufWB \cup SufI64
               \cup Cat(SufU, SufL \cup SufZ \cup SufWB \cup SufI64)
               \cup Cat(SufL \cup SufZ \cup SufWB, SufU)
IntSufRep   == IF Level = 1 THEN {<<>>, <<"u">>, <<"L","L">>, <<"l","u">>}
               ELSE {<<>>, <<"u">>, <<"l">>, <<"L","L">>, <<"U","l","l">>, <<"l","u">>}
FloatSufValid == {<<>>, <<"f">>, <<"F">>, <<"l">>, <<"L">>, <<"d">>, <<"D">>}
FloatSufRep   == IF Level = 1 THEN {<<>>, <<"f">>, <<"L">>} ELSE FloatSufValid

K == 1                                  \* extra digits after the first one (2 makes TLC spend > 30 min building the universe)

(* ---- valid integers ------------------------------------------------------ *)
DecBodies == {<<"0">>} \cup Cat(One(NonZero), Str(Digit, 0, K))
OctBodies == Cat({<<"0">>}, Str(OctDigit, 1, K + 1))
HexBodies == Cat3({<<"0","x">>, <<"0","X">>}, One(HexDigit), Str(HexDigit, 0, 1))      \* 22 hex digit spellings: one extra digit at both levels
BinBodies == Cat3({<<"0","b">>, <<"0","B">>}, One(BinDigit), Str(BinDigit, 0, K))
(* hexadecimal constants whose first digits are b/B/e/E followed by decimal digits, longer *)
HexTricky == Cat3({<<"0","x">>, <<"0","X">>}, One({"b","B","e","E","a","f"}),
                  {<<"3">>, <<"3","b","a">>, <<"0","0">>, <<"1","f">>, <<"9","e">>})
IntBodiesAll == DecBodies \cup OctBodies \cup HexBodies \cup BinBodies \cup HexTricky
IntBodiesRep == {<<"0">>, <<"7">>, <<"1","0">>, <<"0","1","7">>, <<"0","x","1","f">>, <<"0","X","A","B">>,
                 <<"0","x","b","3">>, <<"0","b","1">>, <<"0","B","1","0">>, <<"0","x","a">>, <<"9">>}
ValidInts == Cat(IntBodiesAll, IntSufRep) \cup Cat(IntBodiesRep, IntSufValid)

(* ---- valid floating constants ------------------------------------------- *)
FD  == {<<"0">>, <<"9">>, <<"1","0">>}
ExpPart == Cat3({<<"e">>, <<"E">>}, {<<>>, <<"+">>, <<"-">>}, FD)
DecFrac == Cat3(FD, {<<".">>}, FD) \cup Cat({<<".">>}, FD) \cup Cat(FD, {<<".">>})
DecFloatBodies == Cat(DecFrac, Opt(ExpPart)) \cup Cat(FD, ExpPart)
HD  == IF Level = 1 THEN {<<"1">>, <<"f">>, <<"A","b">>} ELSE {<<"1">>, <<"f">>, <<"A","b">>, <<"e">>, <<"b","3">>}
PExp == Cat3({<<"p">>, <<"P">>}, {<<>>, <<"+">>, <<"-">>}, {<<"1">>, <<"1","0">>})
HexMant == Cat3(HD, {<<".">>}, HD) \cup Cat({<<".">>}, HD) \cup Cat(HD, {<<".">>}) \cup HD
HexFloatBodies == Cat3({<<"0","x">>, <<"0","X">>}, HexMant, PExp)
ValidFloats == Cat(DecFloatBodies \cup HexFloatBodies, FloatSufRep)

(* ---- characters and strings ---------------------------------------------- *)
LitPrefixes == {<<>>, <<"L">>, <<"u">>, <<"U">>, <<"u","8">>}
SimpleEscapes == {<<BSL, c>> : c \in {SQ, DQ, "?", BSL, "a", "b", "f", "n", "r", "t", "v"}}
OctEscapes == Cat({<<BSL>>}, {<<"0">>, <<"7">>, <<"1","2">>, <<"1","2","3">>, <<"3","7","7">>})
HexEscapes == Cat({<<BSL, "x">>}, {<<"0">>, <<"f">>, <<"1","F">>, <<"A","b">>})
Escapes == SimpleEscapes \cup OctEscapes \cup HexEscapes
CChars == One({"a", "Z", "0", " ", DQ, "%", "{", "/", "*", ";"})
SChars == One({"a", "0", " ", SQ, "%", "}", "/", "*", ";", "#"})
ValidChars == Cat3(LitPrefixes, {<<SQ>>}, Cat(CChars \cup Escapes, {<<SQ>>}))
SItems == SChars \cup (IF Level = 1 THEN {<<BSL,"n">>, <<BSL,DQ>>, <<BSL,BSL>>, <<BSL,"0">>, <<BSL,"x","4","1">>} ELSE Escapes)
SBodies == {<<>>} \cup SItems \cup (IF Level = 1 THEN Cat({<<"a">>, <<BSL,"n">>, <<BSL,DQ>>, <<" ">>}, SItems) ELSE Cat(SItems, SItems))
ValidStrings == Cat3(LitPrefixes, {<<DQ>>}, Cat(SBodies, {<<DQ>>}))

(* ---- malformed families (DESIGN 4.11): [text, code] ----------------------- *)
Mal(X, code) == {[t |-> x, code |-> code] : x \in X}
BadBin == {x \in Str({"0","1","2","9"}, 1, 3) : \E i \in DOMAIN x : x[i] \notin BinDigit}
BadOct == {x \in Str({"0","7","8","9"}, 1, 3) : \E i \in DOMAIN x : x[i] \notin OctDigit}
BadIntSuf == {<<"u","u">>, <<"U","U">>, <<"l","L">>, <<"L","l">>, <<"l","u","l">>, <<"u","l","u">>, <<"l","l","l">>,
              <<"g">>, <<"a","b","c">>, <<"_">>, <<"u","1">>, <<"l","l","u","l">>, <<"f">>, <<"z","z">>, <<"i","3","2">>}
M1 == Mal(Cat({<<"0","b">>, <<"0","B">>}, BadBin), "INVALID_BIN_INT") \cup Mal(Cat({<<"0">>}, BadOct), "INVALID_OCT_INT")
M2 == Mal(Cat({<<"1","0">>, <<"7">>, <<"0","1","7">>, <<"0","b","1">>, <<"1","2">>}, BadIntSuf)
          \cup Cat({<<"0","x","1","f">>, <<"0","X","b","3">>}, {x \in BadIntSuf : x[1] \notin HexDigit})
          \cup {<<"0","x","1","f","g">>, <<"1","2","a","b","c">>}, "INVALID_SUFFIX")
M3 == Mal({<<"0","x">>, <<"0","X">>, <<"0","b">>, <<"0","B">>}, "INVALID_SUFFIX")
M4 == Mal(Cat3({<<"1">>, <<"1","0">>, <<"1",".","5">>, <<".","5">>, <<"1",".">>}, {<<"e">>, <<"E">>}, {<<>>, <<"+">>, <<"-">>})
          \cup Cat3({<<"0","x","1">>, <<"0","x","1",".","8">>}, {<<"p">>, <<"P">>}, {<<>>, <<"+">>, <<"-">>}), "BAD_EXPONENT")
M5 == Mal({<<"1",".","2",".","3">>, <<"1",".",".","2">>, <<".","1",".","2">>, <<"1",".","2",".">>, <<"1",".","5","e","1",".","2">>},
          "MULTIPLE_DOTS")
M6 == Mal(Cat({<<"1",".","5">>, <<"1",".">>, <<".","5">>, <<"1","e","5">>, <<"1",".","5","e","+","1">>},
              {<<"x">>, <<"f","f">>, <<"q">>, <<"l","f">>, <<"u">>, <<"f","l">>, <<"_">>}), "BAD_FLOAT_SUFFIX")
M7 == Mal({<<"0","x","x","1",".","8","p","1">>, <<"0","X","x","1","p","1">>}, "MULTIPLE_X")
M8 == Mal({<<"0","x","1","e","+","1">>, <<"0","x","E","-","2">>, <<"0","X","f","e","+","a">>}, "MAXIMAL_MUNCH")
M9 == Mal(Cat(LitPrefixes, {<<SQ, SQ>>}), "EMPTY_CHAR")
M10eol == Mal(Cat3(LitPrefixes, {<<SQ>>}, {<<"a">>, <<"a","b">>, <<BSL,"n">>, <<>>}), "UNEXPECTED_EOL_CHR")
M10eof == Mal(Cat3(LitPrefixes, {<<SQ>>}, {<<"a">>, <<"a","b">>, <<BSL,"n">>, <<>>}), "UNEXPECTED_EOF_CHR")
M11 == Mal(Cat3(LitPrefixes, {<<DQ>>}, {<<>>, <<"a","b","c">>, <<"a",BSL,DQ>>, <<"a"," ",";">>}), "UNEXPECTED_EOF_STR")
M12 == Mal({<<SQ,BSL,"x",SQ>>, <<DQ,BSL,"x","g",DQ>>, <<DQ,"a",BSL,"x",DQ>>, <<"L",SQ,BSL,"x",SQ>>}, "NO_HEX_DIGITS")
M13 == Mal({<<SQ,BSL,"q",SQ>>, <<DQ,BSL,"y",DQ>>, <<DQ,"a",BSL,"%","b",DQ>>, <<"u","8",DQ,BSL,"w",DQ>>}, "UNKNOWN_ESCAPE")

(* ---- the universe: [fam, t, expect, pre, post] ---------------------------- *)
Valid(fam, X) == {[fam |-> fam, t |-> x, expect |-> "valid"] : x \in X}
MalF(fam, X)  == {[fam |-> fam, t |-> m.t, expect |-> m.code] : m \in X}

Pres  == IF Level = 1 THEN {<<>>, <<"=", " ">>, <<"(">>} ELSE {<<>>, <<"=", " ">>, <<"(">>, <<"a", " ", "+", " ">>}
Posts == {<<>>, <<" ">>, <<";">>, <<")">>, <<",">>, <<NL>>}

Universe ==
    LET lits == Valid("int", ValidInts) \cup Valid("float", ValidFloats)
                \cup Valid("char", ValidChars) \cup Valid("string", ValidStrings)
                \cup MalF("M1", M1) \cup MalF("M2", M2) \cup MalF("M3", M3) \cup MalF("M4", M4) \cup MalF("M5", M5)
                \cup MalF("M6", M6) \cup MalF("M7", M7) \cup MalF("M8", M8) \cup MalF("M9", M9)
                \cup MalF("M12", M12) \cup MalF("M13", M13)
        (* level 2 = the literal sets of level 1 with every escape sequence, all suffix spellings and ALL 24 contexts  *)
        (* (larger digit alphabets make TLC spend more than half an hour building the universe set)                  *)
        ctx(l) == IF Level = 1 /\ l.fam \in {"int", "float"}
                  THEN {<< <<>>, <<>> >>, << <<"=", " ">>, <<";">> >>, << <<"(">>, <<")">> >>}
                  ELSE IF Level = 1 /\ l.fam = "string"
                  THEN {<< <<>>, <<>> >>, << <<"=", " ">>, <<";">> >>, << <<"(">>, <<")">> >>, << <<>>, <<" ">> >>,
                        << <<>>, <<",">> >>, << <<>>, <<NL>> >>}
                  ELSE {<<p, q>> : p \in Pres, q \in Posts}
    IN  UNION {{[fam |-> l.fam, t |-> l.t, expect |-> l.expect, pre |-> c[1], post |-> c[2]] : c \in ctx(l)} : l \in lits}
        \cup {[fam |-> "M10", t |-> m.t, expect |-> m.code, pre |-> p, post |-> <<NL>>] : m \in M10eol, p \in Pres}
        \cup {[fam |-> "M10", t |-> m.t, expect |-> m.code, pre |-> p, post |-> <<>>] : m \in M10eof, p \in Pres}
        \cup {[fam |-> "M11", t |-> m.t, expect |-> m.code, pre |-> p, post |-> <<>>] : m \in M11, p \in Pres}

VARIABLE lit      \* the universe element being lexed (constant along a behaviour)
lvars == <<vars, lit>>

(* sharding: a cheap structural hash of the literal *)
RECURSIVE CodeSum(_, _)
CodeSum(s, i) == IF i > Len(s) THEN 0 ELSE ((IF s[i] \in Digit THEN 3 ELSE IF s[i] \in Lower THEN 5 ELSE 7) * i + CodeSum(s, i + 1)) % 997
ShardOf(u) == (CodeSum(u.t, 1) + Len(u.pre) + 3 * Len(u.post)) % NShards

LInit == /\ lit \in {u \in Universe : ShardOf(u) = Shard}
         /\ src = lit.pre \o lit.t \o lit.post
         /\ pos = 1 /\ line = 1 /\ col = 1 /\ segs = <<>> /\ diags = <<>> /\ sites = {} /\ mode = "run"
LNext == Step /\ UNCHANGED lit
LSpec == LInit /\ [][LNext]_lvars

(* ---- the law, evaluated on any token / diagnostic lists ------------------- *)
LitStart == Len(lit.pre) + 1
LitEnd   == LitStart + Len(lit.t)
LitTypes == {"CONSTANT", "CHAR_CONST", "STRING"}

ClassOK ==
    IF lit.expect = "valid"
    THEN /\ \E i \in DOMAIN Toks : /\ Toks[i].s = LitStart /\ Toks[i].e = LitEnd
                                   /\ Toks[i].type \in LitTypes /\ Toks[i].text = lit.t
         /\ diags = <<>>
    ELSE \E j \in DOMAIN diags : /\ diags[j].code = lit.expect
                                 /\ diags[j].hl[1][1] = 1
                                 /\ diags[j].hl[1][2] >= LitStart /\ diags[j].hl[1][2] < Max(LitEnd, LitStart + 1)

(* TLC does not stop at the first literal on which the transcribed implementation departs from *)
(* the C grammar: every departure is exported (field ok) and must be a listed finding.          *)
=============================================================================
