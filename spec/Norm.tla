-------------------------------- MODULE Norm --------------------------------
(***************************************************************************)
(* Generator of Norm-conforming translation units (DESIGN 4.1), of single   *)
(* violations of them (4.2, variable viol) and of the statement sequence    *)
(* and scope chain the engine must go through (Engine part: stmts, scope).  *)
(*                                                                         *)
(* One action appends one LINE (a sequence of items, see Expr.tla) or a     *)
(* small group of lines, and takes the engine step that line must cause.    *)
(* Everything a property talks about is decided here: order of sections,    *)
(* tabs, spaces, alignment columns, widths, counters, nesting.  The         *)
(* concretiser only spells the slots.                                       *)
(***************************************************************************)
EXTENDS Expr

CONSTANTS MaxFuncs,    \* 1..5
          MaxBody,     \* max body lines of a function in this configuration (<= 25)
          MaxDepth,    \* max nesting of control structures
          ExprLevel,   \* expression table level (Expr.tla)
          Sim,         \* TRUE: simulation mode (random pick of expressions), FALSE: exhaustive over ExprSmall
          FileKind,    \* "c" | "h"
          WithViol     \* TRUE: exactly one violation operator of the catalogue is applied somewhere

VARIABLES prog,    \* Seq of lines; a line is [k: kind, items: Seq(Item), st: statement kind the engine must report]
          phase,   \* where the generator is
          nfun,    \* functions defined so far
          body,    \* number of lines of the current function body so far (between the braces)
          open,    \* stack of open control frames: [braced, kind, n: statements inside, d: depth of its keyword]
          elseOK,  \* depth at which an else / else if may come next, 0 = none
          ndecl,   \* declarations of the current function
          viol,    \* [op, line, code] or NoViol
          scope,   \* the engine's scope chain as the implementation keeps it: Seq of [name, multi]
          wrapped  \* the current function sits inside a conditional-compilation block (#ifdef ... #endif)
nvars == <<prog, phase, nfun, body, open, elseOK, ndecl, viol, scope, wrapped>>

NoViol == [op |-> "none", line |-> 0, code |-> {}, site |-> [k |-> "", lit |-> "", prev |-> "", next |-> "", next2 |-> "", first |-> "", tabs |-> 0]]
TAB1 == [s |-> "T", x |-> "\t", w |-> 0, n |-> 0]
Tabs(n) == [i \in 1..n |-> TAB1]
Line(k, st, items) == [k |-> k, st |-> st, items |-> items]
Emit(l) == prog' = Append(prog, l)
EmitAll(ls) == prog' = prog \o ls

(* visual width of a line: tabs go to the next multiple of 4 *)
(* a statement may be split over several physical lines (item NLc): the width is that of its widest physical line *)
NLc == [s |-> "L", x |-> "\n", w |-> 0, n |-> 0]
RECURSIVE WidthFrom4(_, _, _, _)
WidthFrom4(items, i, c, m) == IF i > Len(items) THEN (IF c > m THEN c ELSE m)
                              ELSE IF items[i] = NLc THEN WidthFrom4(items, i + 1, 0, IF c > m THEN c ELSE m)
                              ELSE IF items[i].s = "T" THEN WidthFrom4(items, i + 1, c + 4 - (c % 4), m)
                              ELSE WidthFrom4(items, i + 1, c + items[i].w, m)
WidthFrom(items, i, c) == WidthFrom4(items, i, c, 0)
LineWidth(l) == WidthFrom(l.items, 1, 0)

(* simulation: random fillers; exhaustive: every STRUCTURE with one canonical filler per slot *)
(* NB: TLC evaluates a zero-arity definition without variables ONCE; every definition that draws at random     *)
(* mentions Live so that it is re-evaluated (and re-drawn) in every state.                                    *)
Live == Len(prog) >= 0
Pick(S) == IF Sim /\ Live THEN {RandomElement(S)} ELSE {CHOOSE x \in S : TRUE}
ExprTable == Exprs(ExprLevel)                \* zero-arity: evaluated once
CallTable == Calls(Atoms \cup {<<S5>>})
ExprChoice == IF Sim /\ Live THEN {RandomElement(ExprTable)} ELSE {<<V1, L(" + ", 3), N1>>}
CondChoice == ExprChoice

(* ---- types ------------------------------------------------------------------ *)
(* [x: spelling, w: width, id: starts with an identifier (user type)] *)
Types == << [x |-> "int", w |-> 3], [x |-> "char", w |-> 4], [x |-> "long", w |-> 4], [x |-> "short", w |-> 5],
            [x |-> "float", w |-> 5], [x |-> "double", w |-> 6], [x |-> "size_t", w |-> 6], [x |-> "t_list", w |-> 6],
            [x |-> "long long", w |-> 9], [x |-> "struct s_pt", w |-> 11], [x |-> "unsigned int", w |-> 12],
            [x |-> "unsigned long", w |-> 13] >>
TypeIdx == IF Sim THEN DOMAIN Types ELSE {1, 2, 8, 11}
TyItem(t) == L(Types[t].x, Types[t].w)
Stars(n) == IF n = 0 THEN <<>> ELSE IF n = 1 THEN <<L("*", 1)>> ELSE <<L("**", 2)>>
NameW == IF Sim THEN {1, 3, 6} ELSE {1, 3}

(* tab stops needed so that all names of a group start in the same column: the widest type decides *)
StopOf(w) == w \div 4                      \* tab stop index reached by text of width w (from a tab stop)
AlignTabs(wMax, w) == Tabs(StopOf(wMax) + 1 - StopOf(w))

(* ---- the 42 header: one abstract line, rendered from the template by the concretiser ---------- *)
HeaderLine == Line("header42", "IsComment*11", <<>>)
Empty == Line("empty", "IsEmptyLine", <<>>)

(***************************************************************************)
(* Engine: the scope chain exactly as Context.update keeps it              *)
(***************************************************************************)
Top == scope[Len(scope)]
PushScope(n, m) == Append(scope, [name |-> n, multi |-> m])
RECURSIVE PopControls(_)
PopControls(sc) ==      \* a single-line control scope ends with the statement it governs, repeatedly
    IF Len(sc) > 1 /\ sc[Len(sc)].name = "ControlStructure" /\ ~sc[Len(sc)].multi
    THEN PopControls(SubSeq(sc, 1, Len(sc) - 1)) ELSE sc
Indent(sc) == Len(sc) - 1

(* ---- parameters ------------------------------------------------------------ *)
RetTypes == {<<L("void", 4)>>, <<L("int", 3)>>, <<L("char", 4)>>, <<L("static int", 10)>>, <<L("static void", 11)>>,
             <<L("t_list", 6)>>, <<L("size_t", 6)>>, <<L("unsigned int", 12)>>}
Param(t, st, w, n) == <<TyItem(t), L(" ", 1)>> \o Stars(st) \o <<Slot("p", w, n)>>
(* a function-pointer parameter: int (*name)(void *, void *) ; k = number of (unnamed) parameters of the callback *)
InnerTypes(k) == IF k = 1 THEN L("int", 3) ELSE IF k = 2 THEN L("void *, void *", 14) ELSE L("char *, int, void *", 19)
FParam(w, n, k) == <<L("int", 3), L(" ", 1), L("(*", 2), Slot("p", w, n), L(")(", 2), InnerTypes(k), L(")", 1)>>
ParamChoices(n) == {Param(t, st, w, n) : t \in Pick(TypeIdx), st \in Pick(0..2), w \in Pick(NameW)}
RECURSIVE JoinParams(_, _)
JoinParams(ps, i) == IF i > Len(ps) THEN <<>>
                     ELSE (IF i = 1 THEN <<>> ELSE <<L(", ", 2)>>) \o ps[i] \o JoinParams(ps, i + 1)
ParamLists == IF Sim
              THEN {<< L("void", 4) >>}
                   \cup UNION {{JoinParams([i \in 1..n |-> IF fs[i] >= 4 THEN FParam(ws[i], i, fs[i] - 3) ELSE Param(ts[i], sts[i], ws[i], i)], 1)
                                  : ts \in Pick([1..n -> TypeIdx]), sts \in Pick([1..n -> 0..2]), ws \in Pick([1..n -> NameW]),
                                    fs \in Pick([1..n -> 0..6])}          \* 4..6: a callback with 1..3 parameters
                              : n \in Pick(1..4)}
              ELSE {<< L("void", 4) >>, Param(2, 1, 3, 1) \o <<L(", ", 2)>> \o Param(1, 0, 1, 2)}


(***************************************************************************)
(* File prologue                                                           *)
(***************************************************************************)
Init == /\ prog = <<HeaderLine>> /\ phase = "after_header" /\ nfun = 0 /\ body = 0 /\ open = <<>> /\ elseOK = 0
        /\ ndecl = 0 /\ viol = NoViol /\ scope = << [name |-> "GlobalScope", multi |-> FALSE] >> /\ wrapped = FALSE

IncludeLine(sys, w) == Line("include", "IsPreprocessorStatement",
                            IF sys THEN <<L("#include <", 10), Slot("inc", w, 0), L(".h>", 3)>>
                            ELSE <<L("#include \"", 10), Slot("inc", w, 0), L(".h\"", 3)>>)
DefineLine(i, w, val) == Line("define", "IsPreprocessorStatement", <<L("#define ", 8), Slot("m", w, i)>> \o <<L(" ", 1)>> \o val)
DefVals == {<<N2>>, <<N4>>, <<L("-", 1), N1>>, <<S5>>, <<C3>>, <<Slot("m", 5, 9)>>}

(* ---- file-level declarations: ONE alignment column for all globals/typedef names of the file, ONE for all     *)
(* prototypes (the engine keeps one vars_alignment and one func_alignment in the global scope)                *)
GQual == << [x |-> "static ", w |-> 7], [x |-> "const ", w |-> 6], [x |-> "static const ", w |-> 13], [x |-> "", w |-> 0] >>
GlobalLine(q, t, wMax, st, w, i, init) ==
    Line("global", "IsVarDeclaration",
         (IF GQual[q].w > 0 THEN <<L(GQual[q].x, GQual[q].w)>> ELSE <<>>) \o <<TyItem(t)>>
         \o AlignTabs(wMax, GQual[q].w + Types[t].w) \o Stars(st) \o <<Slot("g", w, i)>>
         \o (CASE init = 1 -> <<L(" = ", 3), N2>>
               [] init = 2 -> <<L("[", 1), N1, L("]", 1)>>
               [] init = 3 -> <<L("[sizeof(", 8), TY3, L(") * ", 4), N1, L("]", 1)>>      \* parentheses inside the array size
               [] init = 4 -> <<L("[(", 2), N1, L(" + ", 3), N1, L(")]", 2)>>
               [] OTHER -> <<>>) \o <<L(";", 1)>>)
ProtoLine(static, t, wMax, st, w, i, params) ==
    Line("proto", "IsFuncPrototype",
         (IF static THEN <<L("static ", 7)>> ELSE <<>>) \o <<TyItem(t)>>
         \o AlignTabs(wMax, (IF static THEN 7 ELSE 0) + Types[t].w) \o Stars(st) \o <<Slot("f", w, 20 + i), L("(", 1)>>
         \o params \o <<L(");", 2)>>)
MaxOf(f, n) == IF n = 0 THEN 0 ELSE f[CHOOSE i \in 1..n : \A j \in 1..n : f[j] <= f[i]]
FileComments == {Line("comment", "IsComment", <<L("/* ", 3), Slot("txt", 12, 0), L(" */", 3)>>),
                 Line("comment", "IsComment", <<L("/*", 2), Slot("txt", 10, 0), L("*/", 2)>>),
                 Line("comment", "IsComment", <<L("// ", 3), Slot("txt", 20, 0)>>),
                 Line("comment", "IsComment3", <<L("/*", 2)>>) }      \* a three-line block comment, rendered from a template

Globals(n, qs, ts, sts, ws, inits) ==
    LET wd == [i \in 1..n |-> GQual[qs[i]].w + Types[ts[i]].w]
    IN [i \in 1..n |-> GlobalLine(qs[i], ts[i], MaxOf(wd, n), sts[i], ws[i], i, inits[i])]
Protos(n, ss, ts, sts, ws, pls) ==
    LET wd == [i \in 1..n |-> (IF ss[i] THEN 7 ELSE 0) + Types[ts[i]].w]
    IN [i \in 1..n |-> ProtoLine(ss[i], ts[i], MaxOf(wd, n), sts[i], ws[i], i, pls[i])]

Prologue ==
    /\ phase = "after_header" /\ FileKind = "c"
    /\ \E ninc \in (IF Sim THEN Pick(0..3) ELSE {1}), ndef \in (IF Sim THEN Pick(0..3) ELSE {0}) :
        \E incs \in Pick([1..ninc -> {IncludeLine(sy, w) : sy \in BOOLEAN, w \in {4, 6, 9}}]) :
        \E dws \in Pick([1..ndef -> {3, 6}]), dvs \in Pick([1..ndef -> DefVals]) :
          LET defs == [i \in 1..ndef |-> DefineLine(i, dws[i], dvs[i])] IN
        \E ng \in (IF Sim THEN Pick(0..3) ELSE {0}), np \in (IF Sim THEN Pick(0..3) ELSE {0}) :
        \E gq \in Pick([1..ng -> 1..4]), gt \in Pick([1..ng -> TypeIdx]), gs \in Pick([1..ng -> 0..1]), gw \in Pick([1..ng -> {3, 6}]),
           gi \in Pick([1..ng -> 0..4]) :
        \E pss \in Pick([1..np -> BOOLEAN]), pt \in Pick([1..np -> TypeIdx]), pst \in Pick([1..np -> 0..1]), pw \in Pick([1..np -> {4, 7}]),
           ppl \in Pick([1..np -> ParamLists]) :
            LET gl == Globals(ng, gq, gt, gs, gw, gi)
                pl == Protos(np, pss, pt, pst, pw, ppl)
            IN /\ \A i \in 1..np : LineWidth(pl[i]) <= 80
               /\ EmitAll(<<Empty>> \o incs \o (IF ninc > 0 THEN <<Empty>> ELSE <<>>) \o defs \o (IF ndef > 0 THEN <<Empty>> ELSE <<>>)
                          \o gl \o (IF ng > 0 THEN <<Empty>> ELSE <<>>) \o pl \o (IF np > 0 THEN <<Empty>> ELSE <<>>))
    /\ phase' = "toplevel"
    /\ UNCHANGED <<nfun, body, open, elseOK, ndecl, viol, scope, wrapped>>

(***************************************************************************)
(* Header files: guard, indented directives, type blocks, prototypes       *)
(***************************************************************************)
HIncludeLine(sys, w) == Line("include", "IsPreprocessorStatement",
                             IF sys THEN <<L("# include <", 11), Slot("inc", w, 0), L(".h>", 3)>>
                             ELSE <<L("# include \"", 11), Slot("inc", w, 0), L(".h\"", 3)>>)
HDefineLine(i, w, val) == Line("define", "IsPreprocessorStatement", <<L("# define ", 9), Slot("m", w, i)>> \o <<L(" ", 1)>> \o val)
GuardOpen == << Line("ifndef", "IsPreprocessorStatement", <<L("#ifndef ", 8), Slot("guard", 0, 0)>>),
                Line("guarddef", "IsPreprocessorStatement", <<L("# define ", 9), Slot("guard", 0, 0)>>) >>
GuardClose == << Line("endif", "IsPreprocessorStatement", <<L("#endif", 6)>>) >>

(* typedef struct / union: fields aligned on one column; the typedef name after the closing brace either on the *)
(* same column (as in the Norm's example) or after a single tab                                                *)
FieldLine(t, wMax, st, w, i) ==
    Line("field", "IsVarDeclaration", <<TAB1, TyItem(t)>> \o AlignTabs(wMax, Types[t].w) \o Stars(st) \o <<Slot("fld", w, i), L(";", 1)>>)
(* an anonymous union nested among the fields: its members are indented one more level, its closing brace carries *)
(* the member name (possibly a pointer declarator) on the alignment column of the enclosing fields              *)
NestedUnion(wMax, ptr) ==
    << Line("utype", "IsUserDefinedType", <<TAB1, L("union", 5)>>),
       Line("lbrace", "IsBlockStart", <<TAB1, L("{", 1)>>),
       Line("field", "IsVarDeclaration", <<TAB1, TAB1, L("int", 3), TAB1, TAB1, Slot("fld", 1, 71), L(";", 1)>>),
       Line("field", "IsVarDeclaration", <<TAB1, TAB1, L("char", 4), TAB1, L("*", 1), Slot("fld", 3, 72), L(";", 1)>>),
       (* LeakedSub: with a pointer declarator IsBlockEnd gives up after having set the pending scope; the statement *)
       (* is then claimed by IsDeclaration, which applies that pending scope -- the engine reports IsDeclaration      *)
       Line("rbrace", IF ptr THEN "IsDeclaration" ELSE "IsBlockEnd",
            <<TAB1, L("}", 1)>> \o AlignTabs(wMax, 1) \o (IF ptr THEN <<L("*", 1)>> ELSE <<>>) \o <<Slot("utag", 5, 73), L(";", 1)>>) >>
    (* the member is spelled u_xxx: the tool applies the union naming rule to the declarator of an anonymous union *)
StructBlock(kw, tagcls, b, n, ts, sts, ws, alignName) ==
    LET wd == [i \in 1..n |-> Types[ts[i]].w]
        wMax == MaxOf(wd, n)
        nest == Sim /\ kw = "typedef struct " /\ n >= 2 /\ ws[1] = 1        \* a third of the structs with >= 2 fields
    IN << Line("utype", "IsUserDefinedType", <<L(kw, IF kw = "typedef struct " THEN 15 ELSE 14), Slot(tagcls, 6, b)>>),
          Line("lbrace", "IsBlockStart", <<L("{", 1)>>) >>
       \o <<FieldLine(ts[1], wMax, sts[1], ws[1], 1)>>
       \o (IF nest THEN NestedUnion(wMax, sts[1] > 0) ELSE <<>>)
       \o [i \in 1..(n - 1) |-> FieldLine(ts[i + 1], wMax, sts[i + 1], ws[i + 1], i + 1)]
       \o << Line("rbrace", "IsBlockEnd",
                  <<L("}", 1)>> \o (IF alignName THEN Tabs(StopOf(wMax) + 2) ELSE <<TAB1>>) \o <<Slot("tname", 6, b), L(";", 1)>>) >>
EnumBlock(b, n, vals) ==
    << Line("utype", "IsUserDefinedType", <<L("typedef enum ", 13), Slot("etag", 6, b)>>),
       Line("lbrace", "IsBlockStart", <<L("{", 1)>>) >>
    \o [i \in 1..n |-> Line("enumval", "IsEnumVarDecl",
                              <<TAB1, Slot("econst", 5, 10 * b + i)>> \o (IF vals[i] THEN <<L(" = ", 3), N1>> ELSE <<>>)
                              \o (IF i < n THEN <<L(",", 1)>> ELSE <<>>))]
    \o << Line("rbrace", "IsBlockEnd", <<L("}", 1), TAB1, Slot("tname", 6, b), L(";", 1)>>) >>

HPrologue ==
    /\ phase = "after_header" /\ FileKind = "h"
    /\ \E ninc \in (IF Sim THEN Pick(0..3) ELSE {0, 1}), ndef \in (IF Sim THEN Pick(0..3) ELSE {0, 1}),
          nblk \in (IF Sim THEN Pick(0..3) ELSE {0, 1, 2}), np \in (IF Sim THEN Pick(0..4) ELSE {0, 2}) :
        \E incs \in Pick([1..ninc -> {HIncludeLine(sy, w) : sy \in BOOLEAN, w \in {4, 6, 9}}]) :
        \E dws \in Pick([1..ndef -> {3, 6}]), dvs \in Pick([1..ndef -> DefVals]) :
        \E bk \in (IF Sim THEN Pick([1..nblk -> {"struct", "union", "enum"}]) ELSE [1..nblk -> {"struct", "enum"}]),
           bn \in Pick([1..nblk -> 1..4]), ba \in Pick([1..nblk -> BOOLEAN]) :
        \E ft \in Pick([1..nblk -> [1..4 -> TypeIdx]]), fs \in Pick([1..nblk -> [1..4 -> 0..2]]), fw \in Pick([1..nblk -> [1..4 -> NameW]]),
           ev \in Pick([1..nblk -> [1..4 -> BOOLEAN]]) :
        \E pss \in Pick([1..np -> {FALSE}]), pt \in Pick([1..np -> TypeIdx]), pst \in Pick([1..np -> 0..1]), pw \in Pick([1..np -> {4, 7}]),
           ppl \in Pick([1..np -> ParamLists]) :
            LET defs == [i \in 1..ndef |-> HDefineLine(i, dws[i], dvs[i])]
                blk(b) == IF bk[b] = "enum" THEN EnumBlock(b, bn[b], ev[b])
                          ELSE StructBlock(IF bk[b] = "struct" THEN "typedef struct " ELSE "typedef union ",
                                           IF bk[b] = "struct" THEN "stag" ELSE "utag", b, bn[b], ft[b], fs[b], fw[b], ba[b])
                RECURSIVE Blocks(_)
                Blocks(b) == IF b > nblk THEN <<>> ELSE blk(b) \o <<Empty>> \o Blocks(b + 1)
                pl == Protos(np, pss, pt, pst, pw, ppl)
            IN /\ \A i \in 1..np : LineWidth(pl[i]) <= 80
               /\ EmitAll(<<Empty>> \o GuardOpen \o <<Empty>>
                          \o incs \o (IF ninc > 0 THEN <<Empty>> ELSE <<>>) \o defs \o (IF ndef > 0 THEN <<Empty>> ELSE <<>>)
                          \o Blocks(1) \o pl \o (IF np > 0 THEN <<Empty>> ELSE <<>>) \o GuardClose)
    /\ phase' = "done" /\ nfun' = 0
    /\ UNCHANGED <<body, open, elseOK, ndecl, viol, scope, wrapped>>

(***************************************************************************)
(* Function definitions                                                    *)
(***************************************************************************)
FuncHead(rt, st, w, params) ==
    Line("funchead", "IsFuncDeclaration", rt \o <<TAB1>> \o Stars(st) \o <<Slot("f", w, nfun + 1), L("(", 1)>> \o params \o <<L(")", 1)>>)

StartFunc ==
    /\ phase = "toplevel" /\ nfun < MaxFuncs /\ FileKind = "c"
    /\ \E rt \in Pick(RetTypes), st \in Pick(0..1), w \in Pick({4, 7, 10}), ps \in (IF Sim THEN Pick(ParamLists) ELSE ParamLists) :
        LET h == FuncHead(rt, st, w, ps) IN
        /\ LineWidth(h) <= 80
        /\ \E cm \in (IF Sim THEN Pick({<<>>, <<>>, <<>>} \cup {<<c>> : c \in FileComments}) ELSE {<<>>}),
              wr \in (IF Sim THEN Pick({"none", "none", "none", "none", "ifdef_empty", "ifdef_comment", "if_defined"}) ELSE {"none"}) :
             LET cond == IF wr = "if_defined"
                         THEN Line("cond", "IsPreprocessorStatement", <<L("#if defined(", 12), Slot("m", 5, 30 + nfun), L(") && ", 5), Slot("m", 4, 40 + nfun), L(" > ", 3), N1>>)
                         ELSE Line("cond", "IsPreprocessorStatement", <<L(IF nfun % 2 = 0 THEN "#ifdef " ELSE "#ifndef ", IF nfun % 2 = 0 THEN 7 ELSE 8), Slot("m", 6, 30 + nfun)>>)
                 (* a comment glued between the directive and the function stands for the empty line (the tool's rule) *)
                 pre == IF wr = "none" THEN cm
                        ELSE IF wr = "ifdef_comment" THEN <<cond, Line("comment", "IsComment", <<L("// ", 3), Slot("txt", 14, 0)>>)>>
                        ELSE <<cond, Empty>> \o cm
             IN /\ EmitAll((IF nfun > 0 THEN <<Empty>> ELSE <<>>) \o pre \o <<h, Line("lbrace", "IsBlockStart", <<L("{", 1)>>)>>)
                /\ wrapped' = (wr # "none")
    /\ phase' = "decls" /\ nfun' = nfun + 1 /\ body' = 0 /\ open' = <<>> /\ elseOK' = 0 /\ ndecl' = 0
    /\ scope' = PushScope("Function", TRUE)
    /\ UNCHANGED viol

(* all declarations of a function at once: one alignment column, the widest type decides *)
(* the size of a declared array: a constant, a macro, or a constant expression over character constants *)
ArraySize(n) == IF n % 3 = 1 THEN <<N2>> ELSE IF n % 3 = 2 THEN <<C3, L(" - ", 3), C3, L(" + ", 3), N1>> ELSE <<Slot("m", 4, 55)>>
DeclLine(t, wMax, st, w, n, arr) ==
    Line("decl", "IsVarDeclaration",
         <<TAB1, TyItem(t)>> \o AlignTabs(wMax, Types[t].w) \o Stars(st) \o <<Slot("v", w, 10 + n)>>
         \o (IF arr THEN <<L("[", 1)>> \o ArraySize(n) \o <<L("]", 1)>> ELSE <<>>) \o <<L(";", 1)>>)
Decls ==
    /\ phase = "decls"
    /\ \E n \in (IF Sim THEN Pick(0..5) ELSE {0, 2}) :
        /\ n + (IF n > 0 THEN 1 ELSE 0) + 1 <= MaxBody
        /\ \E ts \in Pick([1..n -> TypeIdx]) :
           \E sts \in Pick([1..n -> 0..2]), ws \in Pick([1..n -> NameW]), arrs \in Pick([1..n -> BOOLEAN]) :
            LET wMax == IF n = 0 THEN 0 ELSE Types[ts[CHOOSE i \in 1..n : \A j \in 1..n : Types[ts[j]].w <= Types[ts[i]].w]].w
            IN EmitAll([i \in 1..n |-> DeclLine(ts[i], wMax, sts[i], ws[i], i, arrs[i])]
                       \o (IF n > 0 THEN <<Empty>> ELSE <<>>))
        /\ body' = n + (IF n > 0 THEN 1 ELSE 0)
        /\ ndecl' = n
    /\ phase' = "body"
    /\ UNCHANGED <<nfun, open, elseOK, viol, scope, wrapped>>

(* ---- statements ------------------------------------------------------------- *)
Depth == 1 + Len(open)                     \* indentation of the next statement
AssignOps == {L(" = ", 3), L(" += ", 4), L(" -= ", 4), L(" *= ", 4), L(" /= ", 4), L(" %= ", 4), L(" &= ", 4),
              L(" |= ", 4), L(" ^= ", 4), L(" <<= ", 5), L(" >>= ", 5)}
LValues == {<<V1>>, <<V3>>, <<L("*", 1), V3>>, <<V3, L("[", 1), V1, L("]", 1)>>, <<V3, L("->", 2), V3>>, <<V3, L(".", 1), V1>>}
SimpleStmts ==
    {[st |-> "IsAssignation", items |-> lv \o <<op>> \o e \o <<L(";", 1)>>] : lv \in Pick(LValues), op \in Pick(AssignOps), e \in ExprChoice}
    \cup {[st |-> "IsAssignation", items |-> lv \o <<o, L(";", 1)>>] : lv \in Pick(LValues), o \in {L("++", 2), L("--", 2)}}
    \cup {[st |-> "IsFunctionCall", items |-> c \o <<L(";", 1)>>] : c \in Pick(CallTable)}
    \cup {[st |-> "IsAssignation", items |-> <<L("++", 2), V1, L(";", 1)>>],
          [st |-> "IsAssignation", items |-> <<L("(", 1), L("*", 1), V3, L(")", 1), L("++", 2), L(";", 1)>>]}
    \cup {[st |-> "IsAssignation", items |-> <<V3, L("[", 1)>> \o e \o <<L("]", 1)>> \o <<op>> \o e2 \o <<L(";", 1)>>]
              : op \in Pick(AssignOps), e \in ExprChoice, e2 \in ExprChoice}
    \cup {[st |-> "IsFunctionCall", items |-> <<F4, L("(", 1), V1, L(", ", 2)>> \o e \o <<L(");", 2)>>] : e \in ExprChoice}
    \cup {[st |-> "IsExpressionStatement", items |-> <<L("return (", 8)>> \o e \o <<L(");", 2)>>] : e \in ExprChoice}
    \cup {[st |-> "IsExpressionStatement", items |-> <<L("return ;", 8)>>]}
    \cup {[st |-> "IsExpressionStatement", items |-> <<L("(void)", 6), V3, L(";", 1)>>]}
LoopStmts == {[st |-> "IsExpressionStatement", items |-> <<L("break ;", 7)>>],
              [st |-> "IsExpressionStatement", items |-> <<L("continue ;", 10)>>]}
InLoop == \E i \in DOMAIN open : open[i].kind = "while"

(* after a complete statement: braceless frames that it terminates are closed, innermost first *)
RECURSIVE CloseBraceless(_)
CloseBraceless(op) == IF op # <<>> /\ ~op[Len(op)].braced THEN CloseBraceless(SubSeq(op, 1, Len(op) - 1))
                      ELSE IF op # <<>> THEN [op EXCEPT ![Len(op)].n = @ + 1] ELSE op
(* the frames a complete statement closes: the maximal braceless suffix, innermost first *)
RECURSIVE ClosedBy(_)
ClosedBy(op) == IF op # <<>> /\ ~op[Len(op)].braced THEN <<op[Len(op)]>> \o ClosedBy(SubSeq(op, 1, Len(op) - 1)) ELSE <<>>
(* an else / else if may follow only the OUTERMOST statement that just ended, if that is an if / else if and no *)
(* if nested inside it (braceless) ended at the same time: no dangling else, which the engine cannot follow      *)
ElseTarget(cl) == IF cl = <<>> THEN 0
                  ELSE IF cl[Len(cl)].kind \in {"if", "elseif"} /\ \A i \in 1..(Len(cl) - 1) : cl[i].kind \in {"while", "else"}
                       THEN cl[Len(cl)].d ELSE 0
ReserveOf(op) == Cardinality({i \in DOMAIN op : op[i].braced})
                 + (IF op # <<>> /\ (~op[Len(op)].braced \/ op[Len(op)].n = 0) THEN 1 ELSE 0)

Simple ==
    /\ phase = "body" /\ body + 1 + ReserveOf(CloseBraceless(open)) <= MaxBody
    /\ \E s \in SimpleStmts \cup (IF InLoop THEN LoopStmts ELSE {}) :
        LET l == Line("stmt", s.st, Tabs(Depth) \o s.items) IN
        /\ LineWidth(l) <= 80
        /\ Emit(l)
    /\ body' = body + 1
    /\ elseOK' = ElseTarget(ClosedBy(open))
    /\ open' = CloseBraceless(open)
    /\ scope' = PopControls(scope)
    /\ UNCHANGED <<phase, nfun, ndecl, viol, wrapped>>

(* ---- statements split over two physical lines ------------------------------------------------------------- *)
(* The Norm: "the following lines created must be indented compared to the first line ... operators will be at  *)
(* the beginning of the new line".  The continuation is written with the indentation the tool demands (scope    *)
(* indentation + depth of the open parentheses, + 1 in an assignment); other indentations are not claimed.      *)
(* kind "stmt2" / "ctrl2": one statement, two physical lines; the line-local violation operators skip them.     *)
LeadOps == {L("+ ", 2), L("- ", 2), L("&& ", 3), L("|| ", 3)}
(* a leading "* " only after operands that end a value unambiguously for a token-level tool: "(t)(x) * y" reads as a  *)
(* cast of a dereference (explored, not claimed)                                                                     *)
MulLeft == {<<V1>>, <<N1>>, <<V3, L("[", 1), V1, L("]", 1)>>, <<V1, L("++", 2)>>, <<L("(", 1), V1, L(" + ", 3), N1, L(")", 1)>>,
            <<F4, L("(", 1), V1, L(")", 1)>>}
SplitStmts(d) ==
    {[st |-> "IsFunctionCall", items |-> <<F4, L("(", 1), V1, L(",", 1), NLc>> \o Tabs(d + 1) \o e \o <<L(");", 2)>>] : e \in ExprChoice}
    \cup {[st |-> "IsAssignation", items |-> <<V1, L(" = ", 3), F7, L("(", 1), V3, L(",", 1), NLc>> \o Tabs(d + 2) \o e \o <<L(");", 2)>>]
              : e \in ExprChoice}
    \cup {[st |-> "IsAssignation", items |-> <<V3, L(" = ", 3)>> \o e \o <<NLc>> \o Tabs(d + 1) \o <<o>> \o e2 \o <<L(";", 1)>>]
              : o \in Pick(LeadOps), e \in ExprChoice, e2 \in ExprChoice}
    \cup {[st |-> "IsAssignation", items |-> <<V3, L(" = ", 3)>> \o e \o <<NLc>> \o Tabs(d + 1) \o <<L("* ", 2)>> \o e2 \o <<L(";", 1)>>]
              : e \in Pick(MulLeft), e2 \in Pick(MulLeft)}
    (* a loop with an empty body: the ";" on its own line, one tab deeper; ONE statement for the engine, no scope is opened *)
    \cup {[st |-> "IsControlStatement", items |-> <<L("while (", 7)>> \o c \o <<L(")", 1), NLc>> \o Tabs(d + 1) \o <<L(";", 1)>>] : c \in CondChoice}
    \cup {[st |-> "IsExpressionStatement", items |-> <<L("return (", 8), F4, L("(", 1), V1, L(",", 1), NLc>> \o Tabs(d + 2) \o e \o <<L("));", 3)>>]
              : e \in ExprChoice}
SimpleSplit ==
    /\ phase = "body" /\ body + 2 + ReserveOf(CloseBraceless(open)) <= MaxBody
    /\ \E s \in Pick(SplitStmts(Depth)) :
        LET l == Line("stmt2", s.st, Tabs(Depth) \o s.items) IN
        /\ LineWidth(l) <= 80
        /\ Emit(l)
    /\ body' = body + 2
    /\ elseOK' = ElseTarget(ClosedBy(open))
    /\ open' = CloseBraceless(open)
    /\ scope' = PopControls(scope)
    /\ UNCHANGED <<phase, nfun, ndecl, viol, wrapped>>

CtrlHead(kw, c) == <<L(kw, IF kw = "if (" THEN 4 ELSE IF kw = "while (" THEN 7 ELSE 9)>> \o c \o <<L(")", 1)>>
Control ==
    /\ phase = "body" /\ Len(open) < MaxDepth
    /\ \E kind \in {"if", "while", "elseif", "else"}, braced \in BOOLEAN, split \in (IF Sim THEN Pick({FALSE, FALSE, FALSE, TRUE}) ELSE {FALSE}) :
        /\ kind \in {"elseif", "else"} => elseOK = Depth
        /\ split => kind \in {"if", "while"}
        (* Norm: "control structures must use braces, unless they contain a single instruction on a single line": *)
        (* a braced block never hangs under a braceless control structure                                         *)
        /\ (IF braced /\ open # <<>> THEN open[Len(open)].braced ELSE TRUE)    \* IF, not \/: TLC splits action-level disjunctions
        /\ body + (IF braced THEN 2 ELSE 1) + (IF split THEN 1 ELSE 0)
                + ReserveOf(Append(open, [braced |-> braced, kind |-> kind, n |-> 0, d |-> Depth])) <= MaxBody
        /\ \E c \in CondChoice, c2 \in CondChoice, lo \in Pick({L("&& ", 3), L("|| ", 3)}) :
            LET cc == IF split THEN c \o <<NLc>> \o Tabs(Depth + 1) \o <<lo>> \o c2 ELSE c
                head == IF kind = "else" THEN <<L("else", 4)>>
                        ELSE CtrlHead(IF kind = "if" THEN "if (" ELSE IF kind = "while" THEN "while (" ELSE "else if (", cc)
                l == Line(IF split THEN "ctrl2" ELSE "ctrl", "IsControlStatement", Tabs(Depth) \o head)
            IN /\ LineWidth(l) <= 80
               /\ EmitAll(<<l>> \o (IF braced THEN <<Line("lbrace", "IsBlockStart", Tabs(Depth) \o <<L("{", 1)>>)>> ELSE <<>>))
        /\ open' = Append(open, [braced |-> braced, kind |-> kind, n |-> 0, d |-> Depth])
        /\ body' = body + (IF braced THEN 2 ELSE 1) + (IF split THEN 1 ELSE 0)
        /\ scope' = PushScope("ControlStructure", braced)
    /\ elseOK' = 0
    /\ UNCHANGED <<phase, nfun, ndecl, viol, wrapped>>

CloseBlock ==
    /\ phase = "body" /\ open # <<>> /\ open[Len(open)].braced /\ open[Len(open)].n >= 1 /\ body < MaxBody
    /\ Emit(Line("rbrace", "IsBlockEnd", Tabs(Len(open)) \o <<L("}", 1)>>))
    /\ body' = body + 1
    /\ LET rest == SubSeq(open, 1, Len(open) - 1) IN
        /\ elseOK' = ElseTarget(<<open[Len(open)]>> \o ClosedBy(rest))
        /\ open' = CloseBraceless(rest)
    /\ scope' = PopControls(SubSeq(scope, 1, Len(scope) - 1))
    /\ UNCHANGED <<phase, nfun, ndecl, viol, wrapped>>

Reserve == ReserveOf(open)

EndFunc ==
    /\ phase = "body" /\ open = <<>> /\ body >= 1
    /\ prog[Len(prog)].k \in {"stmt", "rbrace"}
    /\ \E gap \in (IF Sim THEN Pick(BOOLEAN) ELSE {TRUE}) :
         EmitAll(<<Line("rbrace", "IsBlockEnd", <<L("}", 1)>>)>>
                 \o (IF wrapped THEN (IF gap THEN <<Empty>> ELSE <<>>) \o <<Line("endif", "IsPreprocessorStatement", <<L("#endif", 6)>>)>> ELSE <<>>))
    /\ wrapped' = FALSE
    /\ phase' = "toplevel"
    /\ scope' = SubSeq(scope, 1, Len(scope) - 1)
    /\ elseOK' = 0
    /\ UNCHANGED <<nfun, body, open, ndecl, viol>>

Finish ==
    /\ phase = "toplevel" /\ nfun >= 1
    /\ phase' = "done"
    /\ UNCHANGED <<prog, nfun, body, open, elseOK, ndecl, viol, scope, wrapped>>

(* never paint into a corner: every open braced block must still be closable within MaxBody *)
Feasible == phase = "body" => body + Reserve <= MaxBody

Next == \/ Prologue \/ HPrologue \/ StartFunc \/ Decls \/ Simple \/ SimpleSplit \/ Control \/ CloseBlock \/ EndFunc \/ Finish
Spec == Init /\ [][Next]_nvars

(***************************************************************************)
(* Invariants of the generator / engine pair                               *)
(***************************************************************************)
(* C01/C07: the tabs the grammar writes are the indentation the engine's scope chain demands *)
IndentIsDepth == phase = "body" => Indent(scope) = Depth
(* C07: the nesting depth is back at file level after each function *)
DepthZeroAtTop == phase \in {"toplevel", "done"} => scope = << [name |-> "GlobalScope", multi |-> FALSE] >>
WidthOK == phase # "violated" => \A i \in DOMAIN prog : LineWidth(prog[i]) <= 80
BodyOK == body <= 25 /\ ndecl <= 5 /\ nfun <= 5
OneViolation == viol.op = "none" \/ (viol.line \in 1..Len(prog))
Done == phase = "done"
=============================================================================
