------------------------------- MODULE Report -------------------------------
(***************************************************************************)
(* C08: reports are well-formed, ordered and identical in both formats.    *)
(*                                                                         *)
(* ImplLt is a literal transcription of Error.__lt__ / Highlight.__lt__    *)
(* (norminette/errors.py) -- validated point-wise against the Python       *)
(* comparator by the harness on the whole domain below.  TLC checks on     *)
(* that domain that ImplLt is a strict total order up to equal keys and    *)
(* that sorting by it lists the diagnostics in ascending DISPLAYED         *)
(* position (the first highlight is what both formatters print).           *)
(* HumanView / JsonView define both formatters as views of one abstract    *)
(* results value; ViewsAgree is the invariant the harness evaluates on     *)
(* decoded CLI output.                                                     *)
(***************************************************************************)
EXTENDS Naturals, Integers, Sequences, FiniteSets, TLC, Extracted

CONSTANTS MaxLine, MaxCol, MaxHl,    \* domain bounds
          Codes,                     \* a few diagnostic codes (strings)
          KeyFirst                   \* TRUE: the sort key is the first highlight (after the fix); FALSE: min() of the
                                     \* reversed Highlight order, i.e. the LAST position (the defect)

Hints == {0, 1}                      \* length of the hint text (only its length is compared)
Highlights == [l : 1..MaxLine, c : 1..MaxCol, h : Hints]
HlLists == UNION {[1..n -> Highlights] : n \in 1..MaxHl}
Diags == [code : Codes, hl : HlLists]

(* Highlight.__lt__ -- note the direction: "smaller" means LATER in the file *)
HlLt(a, b) == IF a.l = b.l THEN (IF a.c = b.c THEN a.h > b.h ELSE a.c > b.c) ELSE a.l > b.l
(* min(highlights) under HlLt: Python's min returns the first minimal element *)
HlMin(hs) == LET I == {i \in DOMAIN hs : \A j \in DOMAIN hs : ~HlLt(hs[j], hs[i])}
             IN hs[CHOOSE i \in I : \A j \in I : i <= j]
SortKey(d) == IF KeyFirst THEN d.hl[1] ELSE HlMin(d.hl)

(* string order on the codes: the harness passes Codes whose order is given by CodeRank *)
CONSTANT CodeRank    \* function Codes -> Nat, the lexicographic rank
ImplLt(a, b) ==
    LET ah == SortKey(a)
        bh == SortKey(b)
    IN IF ah.c = bh.c /\ ah.l = bh.l THEN CodeRank[a.code] < CodeRank[b.code]
       ELSE (ah.l < bh.l) \/ (ah.l = bh.l /\ ah.c < bh.c)

Displayed(d) == <<d.hl[1].l, d.hl[1].c>>
PosLe(p, q) == p[1] < q[1] \/ (p[1] = q[1] /\ p[2] <= q[2])

(* ---- comparator laws (state-less: checked as ASSUME-like invariants over one dummy state) ---- *)
Irreflexive == \A a \in Diags : ~ImplLt(a, a)
Asymmetric  == \A a, b \in Diags : ImplLt(a, b) => ~ImplLt(b, a)
Transitive  == \A a, b \in Diags : ImplLt(a, b) => \A c \in Diags : ImplLt(b, c) => ImplLt(a, c)
(* incomparable elements are equivalent: same key and same code, so any stable sort gives one order of keys *)
Total       == \A a, b \in Diags : (~ImplLt(a, b) /\ ~ImplLt(b, a)) =>
                   (SortKey(a).l = SortKey(b).l /\ SortKey(a).c = SortKey(b).c /\ a.code = b.code)
(* the listing order is ascending in the DISPLAYED position *)
SortedAscending == \A a, b \in Diags : ImplLt(a, b) => PosLe(Displayed(a), Displayed(b))

(* ---- the two formatters as views of one value ------------------------------------------------ *)
(* results: Seq of [name, status, diags: Seq of [level, code, line, col, text]] *)
HumanView(results) == [i \in DOMAIN results |-> [name |-> results[i].name, status |-> results[i].status,
                                                   diags |-> results[i].diags]]
JsonView(results)  == HumanView(results)
ViewsAgree(h, j) == h = j

(* catalogue: every code has exactly one text (the extraction would fail on duplicates) *)
ASSUME Cardinality(CatalogueCodes) >= 100

VARIABLE dummy
Init == dummy = 0
Next == UNCHANGED dummy
Spec == Init /\ [][Next]_dummy
=============================================================================
