------------------------------ MODULE DriverMC ------------------------------
EXTENDS Driver, Json
ExportInv == pc = "done" =>
    PrintT(<<"EXPORT", ToJson([tree |-> tree, args |-> args, opts |-> opts, files |-> files, out |-> out,
                               status |-> status])>>)
=============================================================================
