----------------------------- MODULE EngineTrace -----------------------------
(***************************************************************************)
(* Trace validation for the statement / scope engine (direction B).        *)
(* Input: JSON array of traces [id, events]; an event is                   *)
(*   [rule, n, nl, nextLBrace, opensControl, opensType, isEnum,            *)
(*    leakedOuter, after: Seq([name, multi]), lines]                       *)
(* recorded at Context.pop_tokens.  Each event must be explained by        *)
(* Engine!Step from the state reached so far: the chain of scope names and *)
(* multi-line flags the implementation holds AFTER the statement must be   *)
(* the one the machine computes; ScopeWellFormed is evaluated at every     *)
(* step; n >= 1 and the sum of n is the number of tokens (C07 partition).  *)
(* One VERDICT line per trace: first failing event per clause (0 = none).  *)
(***************************************************************************)
EXTENDS Engine, Json, IOUtils

VARIABLES tid, i, ch, sub, hist, consumed, fScope, fWf, fPart, fLines
evars == <<tid, i, ch, sub, hist, consumed, fScope, fWf, fPart, fLines>>

ASSUME TLCSet(8, JsonDeserialize(IOEnv.TRACE_FILE))
Traces == TLCGet(8)
T == Traces[tid]
First(f, n) == IF f = 0 THEN n ELSE f

TInit == /\ tid = 1 /\ i = 1 /\ ch = GlobalChain /\ sub = NoSub /\ hist = <<>> /\ consumed = 0
         /\ fScope = 0 /\ fWf = 0 /\ fPart = 0 /\ fLines = 0

View(c) == [j \in DOMAIN c |-> [name |-> c[j].name, multi |-> c[j].multi]]

Event ==
    /\ tid <= Len(Traces) /\ i <= Len(T.events)
    /\ LET ev == T.events[i]
           r  == Step(ch, sub, hist, ev)
           ok == View(r.ch) = ev.after
           (* after a mismatch, resynchronise on what the implementation reports so that the rest is still checked *)
           next == IF ok THEN r.ch ELSE [j \in DOMAIN ev.after |-> [name |-> ev.after[j].name, multi |-> ev.after[j].multi,
                                                                      instr |-> 1, lines |-> 0]]
       IN /\ fScope' = IF ok THEN fScope ELSE First(fScope, i)
          /\ fWf' = IF ScopeWellFormed(next) THEN fWf ELSE First(fWf, i)
          /\ fPart' = IF ev.n >= 1 THEN fPart ELSE First(fPart, i)
          /\ fLines' = IF ~ok \/ Top(r.ch).lines = ev.lines THEN fLines ELSE First(fLines, i)
          /\ ch' = next /\ sub' = IF ok THEN r.sub ELSE NoSub
          /\ hist' = Append(hist, ev.rule)
          /\ consumed' = consumed + ev.n
    /\ i' = i + 1 /\ UNCHANGED tid

End ==
    /\ tid <= Len(Traces) /\ i = Len(T.events) + 1
    /\ PrintT(<<"EVERDICT", T.id, fScope, fWf, IF fPart # 0 THEN fPart ELSE IF T.complete /\ consumed # T.ntokens THEN i ELSE 0,
                IF T.complete /\ Len(ch) # 1 THEN i ELSE 0, fLines>>)
    /\ tid' = tid + 1 /\ i' = 1 /\ ch' = GlobalChain /\ sub' = NoSub /\ hist' = <<>> /\ consumed' = 0
    /\ fScope' = 0 /\ fWf' = 0 /\ fPart' = 0 /\ fLines' = 0

TNext == Event \/ End
TSpec == TInit /\ [][TNext]_evars
=============================================================================
