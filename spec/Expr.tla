-------------------------------- MODULE Expr --------------------------------
(***************************************************************************)
(* Expression shapes of the conforming grammar (DESIGN 4.1 "Cond, Expr")   *)
(* rendered with the Norm's canonical spacing: "each operator or operand   *)
(* separated by one and only one space", "comma followed by a space",      *)
(* unary operators and pointer stars stuck to their operand, nothing       *)
(* inside parentheses, sizeof without space.                               *)
(*                                                                         *)
(* A rendered expression is a sequence of ITEMS:                           *)
(*   literal  [s |-> "L", x |-> text, w |-> width]                         *)
(*   slot     [s |-> class, x |-> "", w |-> width, n |-> identity]         *)
(* Slot classes: "v" variable, "f" function, "num" numeric constant,       *)
(* "str" string, "chr" character constant, "ty" type name.  The            *)
(* concretiser only SPELLS slots (any text of that class and width);       *)
(* structure, spacing and widths are fixed here.                           *)
(***************************************************************************)
EXTENDS Naturals, Integers, Sequences, FiniteSets, TLC

L(x, w)       == [s |-> "L", x |-> x, w |-> w, n |-> 0]
Slot(s, w, n) == [s |-> s, x |-> "", w |-> w, n |-> n]

Width(items) == LET RECURSIVE W(_)
                    W(i) == IF i > Len(items) THEN 0 ELSE items[i].w + W(i + 1)
                IN W(1)

V1 == Slot("v", 1, 1)
V3 == Slot("v", 3, 2)
V5 == Slot("v", 5, 3)
F4 == Slot("f", 4, 1)
F7 == Slot("f", 7, 2)
N1 == Slot("num", 1, 0)
N2 == Slot("num", 2, 0)
N4 == Slot("num", 4, 0)
N6 == Slot("num", 6, 0)
C3 == Slot("chr", 3, 0)
C4 == Slot("chr", 4, 0)
S5 == Slot("str", 5, 0)
TY3 == Slot("ty", 3, 0)      \* a type keyword of width 3/4 or a user type
TY6 == Slot("ty", 6, 0)

Cat(X, Y) == {x \o y : x \in X, y \in Y}
Wrap(a, X, b) == {<<a>> \o x \o <<b>> : x \in X}
Pre(a, X) == {<<a>> \o x : x \in X}

(* ---- primary / postfix ---------------------------------------------------- *)
Atoms    == {<<V1>>, <<V3>>, <<N1>>, <<N4>>, <<C3>>}
AtomsAll == Atoms \cup {<<V5>>, <<N2>>, <<N6>>, <<C4>>}
Vars     == {<<V1>>, <<V3>>}
Index    == {v \o <<L("[", 1)>> \o i \o <<L("]", 1)>> : v \in Vars, i \in {<<V1>>, <<N1>>, <<V1, L(" + ", 3), N1>>}}
(* an index expression that is itself an expression: a[(i + 1) * n + j], a[f(i)], a[i % n] *)
Index2   == {v \o <<L("[", 1)>> \o i \o <<L("]", 1)>> : v \in Vars,
              i \in {<<L("(", 1), V1, L(" + ", 3), N1, L(")", 1), L(" * ", 3), V3>>,
                      <<L("(", 1), V1, L(" + ", 3), N1, L(")", 1), L(" * ", 3), V3, L(" + ", 3), V1>>,
                      <<L("(", 1), V1, L(" - ", 3), N1, L(")", 1), L(" & ", 3), N1>>,
                      <<F4, L("(", 1), V1, L(")", 1)>>, <<V1, L(" % ", 3), V3>>, <<V1, L(" * ", 3), V3, L(" + ", 3), N1>>,
                      <<L("-", 1), V1>>, <<L("*", 1), V3>>, <<V3, L("[", 1), V1, L("]", 1)>>}}
Member   == {<<V3, L(".", 1), V1>>, <<V3, L("->", 2), V3>>, <<V3, L("->", 2), V3, L("->", 2), V1>>}
Args(A)  == {<<>>} \cup A \cup {a \o <<L(", ", 2)>> \o b : a \in A, b \in {<<V1>>, <<N1>>, <<S5>>}}
               \cup {<<V1, L(", ", 2), V3, L(", ", 2), N1>>, <<V3, L(", ", 2), N1, L(", ", 2), V1, L(", ", 2), C3>>}
Calls(A) == {<<f, L("(", 1)>> \o a \o <<L(")", 1)>> : f \in {F4, F7}, a \in Args(A)}
Postfix  == Atoms \cup Index \cup Member \cup Calls(Atoms \cup {<<S5>>})

(* ---- unary, cast, sizeof -------------------------------------------------- *)
UnOps    == {L("-", 1), L("!", 1), L("~", 1), L("+", 1)}
Unary(X) == {<<o>> \o x : o \in UnOps, x \in X} \cup {<<L("*", 1)>> \o v : v \in Vars \cup Member}
            \cup {<<L("&", 1)>> \o v : v \in Vars \cup Index \cup Member}
Casts(X) == {<<L("(", 1), t, L(")", 1)>> \o x : t \in {TY3, TY6}, x \in X}
            \cup {<<L("(", 1), t, L(" *)", 3)>> \o x : t \in {TY3, TY6}, x \in X}
Sizeofs  == {<<L("sizeof(", 7), t, L(")", 1)>> : t \in {TY3, TY6}} \cup {<<L("sizeof(", 7), V3, L(")", 1)>>}
            \cup {<<L("sizeof(", 7), TY3, L(" *)", 3)>>}
E1small  == Atoms \cup {<<V3, L("[", 1), V1, L("]", 1)>>, <<V3, L("->", 2), V3>>, <<F4, L("(", 1), V1, L(")", 1)>>,
                        <<L("-", 1), V1>>, <<L("!", 1), V3>>, <<L("*", 1), V3>>, <<L("&", 1), V1>>,
                        <<L("(", 1), V1, L(" + ", 3), N1, L(")", 1)>>}
IncDec   == {<<L("++", 2), V1>>, <<L("--", 2), V3>>, <<V1, L("++", 2)>>, <<V3, L("--", 2)>>,
             <<L("(", 1), L("*", 1), V3, L(")", 1), L("++", 2)>>}
UnaryParen == {<<o, L("(", 1), V1, L(" + ", 3), N1, L(")", 1)>> : o \in {L("-", 1), L("!", 1), L("~", 1), L("*", 1)}}
(* a cast (keyword type: "(t_x)*p" would be a product) glued to what a cast can be applied to besides a name: a unary     *)
(* operator, a character constant, sizeof                                                                            *)
CastUnary == {<<L("(", 1), TY3, L(")", 1), o>> \o x : o \in UnOps \cup {L("*", 1), L("&", 1)}, x \in Vars}
             \cup {<<L("(", 1), TY3, L(")", 1), C3>>, <<L("(", 1), L("unsigned char", 13), L(")", 1), C3>>,
                   <<L("(", 1), L("unsigned char", 13), L(")", 1), L("*", 1), V3>>,
                   <<L("(", 1), TY3, L(")", 1), L("sizeof(", 7), TY6, L(")", 1)>>,
                   <<L("(", 1), TY3, L(")", 1), L("(", 1), L("*", 1), V3, L(")", 1)>>,
                   <<L("*", 1), L("(", 1), TY3, L(" *)", 3), V3>>}
E1       == CastUnary \cup IncDec \cup UnaryParen \cup Postfix \cup Unary(Atoms \cup {<<V3, L("[", 1), V1, L("]", 1)>>, <<F4, L("(", 1), V1, L(")", 1)>>})
            \cup Casts({<<V1>>, <<V3>>, <<N1>>, <<F4, L("(", 1), V1, L(")", 1)>>}) \cup Sizeofs

(* ---- binary --------------------------------------------------------------- *)
ArithOps == {L(" + ", 3), L(" - ", 3), L(" * ", 3), L(" / ", 3), L(" % ", 3)}
BitOps   == {L(" & ", 3), L(" | ", 3), L(" ^ ", 3), L(" << ", 4), L(" >> ", 4)}
RelOps   == {L(" < ", 3), L(" > ", 3), L(" <= ", 4), L(" >= ", 4), L(" == ", 4), L(" != ", 4)}
LogOps   == {L(" && ", 4), L(" || ", 4)}
BinOps   == ArithOps \cup BitOps \cup RelOps \cup LogOps
Bin(X, O, Y) == {x \o <<o>> \o y : x \in X, o \in O, y \in Y}
Paren(X) == Wrap(L("(", 1), X, L(")", 1))

(* level 1: every operator between small operands; every E1 shape as left and as right operand of one operator *)
E2 == E1
      \cup Bin(E1small, BinOps, E1small)
      \cup Bin(E1, {L(" + ", 3), L(" && ", 4), L(" == ", 4)}, {<<V1>>, <<N1>>})
      \cup Bin({<<V1>>, <<N1>>}, {L(" - ", 3), L(" * ", 3), L(" || ", 4), L(" & ", 3), L(" < ", 3)}, E1)
      \cup Paren(Bin(Atoms, ArithOps \cup RelOps, Atoms))
      \cup Bin(Paren(Bin({<<V1>>, <<V3>>, <<N1>>}, {L(" + ", 3), L(" - ", 3)}, {<<V1>>, <<N1>>})),
                {L(" * ", 3), L(" & ", 3), L(" - ", 3), L(" + ", 3), L(" / ", 3), L(" % ", 3)}, {<<V1>>, <<V3>>, <<N1>>})
      \cup Index2
      \cup Bin({<<V1, L("++", 2)>>, <<V3, L("--", 2)>>, <<L("(", 1), L("*", 1), V3, L(")", 1), L("++", 2)>>, <<V3, L("[", 1), V1, L("]", 1), L("--", 2)>>},
                {L(" * ", 3), L(" & ", 3), L(" - ", 3), L(" + ", 3)}, {<<V1>>, <<N1>>})      \* a postfix ++/-- ends a value
(* level 2: three operands, parenthesised sub-expressions on either side *)
E3(dummy) == E2          \* parametrised so that TLC does not build the big table at start-up unless it is used
      \cup Bin(Bin(E1small, BinOps, {<<V1>>, <<N1>>}), {L(" + ", 3), L(" * ", 3), L(" && ", 4), L(" || ", 4), L(" == ", 4), L(" & ", 3)}, E1small)
      \cup Bin(Paren(Bin(Atoms, ArithOps, Atoms)), BinOps, E1small)
      \cup Bin(E1small, BinOps, Paren(Bin(Atoms, ArithOps \cup LogOps, Atoms)))
      \cup Unary(Paren(Bin(Atoms, ArithOps \cup RelOps, Atoms)))
      \cup Casts(Paren(Bin(Atoms, ArithOps, Atoms)))

Exprs(level) == IF level <= 0 THEN E1small ELSE IF level = 1 THEN E1 ELSE IF level = 2 THEN E2 ELSE E3(level)

(* conditions: anything but a bare string; the Norm forbids assignments there, none are generated *)
Conds(level) == Exprs(level)

(* ---- invariants of the rendering (checked by TLC over the whole table) ------ *)
NoDoubleSpace(e) == \A i \in 1..(Len(e) - 1) :
    ~(e[i].s = "L" /\ e[i + 1].s = "L" /\ e[i].x \in {" + ", " - ", ", "} /\ e[i + 1].x \in {" + ", " - "})
WellFormed(e) == /\ Len(e) >= 1
                 /\ \A i \in DOMAIN e : e[i].w >= 1
                 /\ NoDoubleSpace(e)
=============================================================================
