----------------------------- MODULE LocalityMC -----------------------------
EXTENDS Locality, Json
ExportInv == phase = "paired" => PrintT(<<"EXPORT", ToJson([kind |-> FileKind, prog |-> prog, prog2 |-> prog2, law |-> law, viol |-> viol, nfun |-> nfun])>>)
=============================================================================
