----------------------------- MODULE NormSelMC ------------------------------
(* Norm.tla explored exhaustively, exporting a deterministic 1-in-XSelMod selection of the completed derivations (the    *)
(* invariants are checked on all of them): the structure universe at MaxBody = 5 has 7.4e5 members, more than the       *)
(* replay harness can hold; the selector is a position-weighted hash of the line kinds, independent of any seed.        *)
EXTENDS NormEngine, Json
CONSTANT XSelMod
KCode(k) == CASE k = "stmt" -> 3 [] k = "stmt2" -> 5 [] k = "ctrl" -> 7 [] k = "ctrl2" -> 11 [] k = "decl" -> 13 [] k = "lbrace" -> 17
              [] k = "rbrace" -> 19 [] k = "empty" -> 23 [] OTHER -> 29
RECURSIVE XHash(_)
XHash(i) == IF i > Len(prog) THEN 0 ELSE i * KCode(prog[i].k) + XHash(i + 1)
ExportInv == (Done /\ XHash(1) % XSelMod = 0) => PrintT(<<"EXPORT", ToJson([kind |-> FileKind, prog |-> prog, viol |-> viol, nfun |-> nfun])>>)
=============================================================================
