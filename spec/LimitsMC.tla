------------------------------ MODULE LimitsMC ------------------------------
EXTENDS Limits, Json
ExportInv == PrintT(<<"EXPORT", ToJson([kind |-> "c", case |-> lcase, prog |-> prog, expect |-> Expect, code |-> CodeOf(lcase),
                                        line |-> Build(lcase).line, target |-> Build(lcase).target])>>)
=============================================================================
