------------------------------- MODULE Driver -------------------------------
(***************************************************************************)
(* The command-line driver, norminette/__main__.py main(), as a state      *)
(* machine: argument list -> work list (stack) -> files -> gitignore       *)
(* filter -> analysis loop -> report -> exit status.                       *)
(*                                                                         *)
(* IMPLEMENTATION-SHAPED actions (one per branch of main()), INTENT-SHAPED *)
(* properties:                                                             *)
(*   C04  OneVerdictPerFile, OKIffNoError, ExitZeroIffAllOK,               *)
(*        FatalNamesFileAndFails, EmptySelectionClean                      *)
(*   C06  SharedStateRestored, PureVerdict                                 *)
(*   C15  SelectedExactly (against Selected, defined without the work list)*)
(*   C16  OptionsArePresentation                                           *)
(* Dev switches the listed (repaired) defects back on; with Dev = {} the   *)
(* module is what main() does after the fix: commits.                      *)
(***************************************************************************)
EXTENDS Naturals, Integers, Sequences, FiniteSets, TLC, Extracted

CONSTANTS Family,      \* "history" | "tree" | "options": which input family Init draws from
          MaxN,        \* history: max number of files; tree: max number of nodes
          MaxArgs,     \* tree: max number of arguments
          Dev,
          Shard, NShards

DevNames == {"exit_last_file", "abort_on_fatal", "dir_named_like_source", "reclimit_leak"}
ASSUME Dev \subseteq DevNames

(* content classes of a C source file *)
Classes == {"clean", "notice", "err", "errdef", "errmany", "fatal", "fatalif"}
(* err: an ordinary Error diagnostic; errdef: only #define-value Errors (what -R CheckDefine removes);
   fatal: unparsable; fatalif: unparsable inside an #if expression (touches the recursion limit) *)

SrcFileNames   == {"a.c", "b c.c", "x.y.c", "p.h"}
OtherFileNames == {"m.cc", "n.C", "o.c.bak", "README"}
PlainDirNames  == {"d", "e f"}
(* the names a generated tree may use (Level 1: a covering subset) *)
GenFileNames == IF MaxN <= 3 THEN {"a.c", "b c.c", "p.h", "m.cc", "o.c.bak", "n.C"} ELSE SrcFileNames \cup OtherFileNames
GenDirNames  == IF MaxN <= 3 THEN {"e f", "sub.c"} ELSE PlainDirNames \cup {"sub.c"}
LikeDirNames   == {"sub.c"}                   \* a directory whose own name looks like a source file
IsSrcName(n) == n \in SrcFileNames \cup LikeDirNames

VARIABLES tree,    \* Seq of [parent, name, kind, cls, ignored]; parent 0 = the working directory
          args,    \* Seq of [node, slash]; node = -1: a path that does not exist
          opts,    \* [format, colors, only, debug, R, gitignore, inline]
          stack, sp, files, k, out, status, pc,
          shared   \* state shared by all files of the process: [reclimit]
vars == <<tree, args, opts, stack, sp, files, k, out, status, pc, shared>>

Nodes == DOMAIN tree
Parent(i) == tree[i].parent
RECURSIVE Under(_, _)
Under(i, d) == IF i = 0 THEN FALSE ELSE IF Parent(i) = d THEN TRUE ELSE Under(Parent(i), d)
Desc(d) == {i \in Nodes : Under(i, d)}
SetToSeq(S) == [j \in 1..Cardinality(S) |-> CHOOSE x \in S : Cardinality({y \in S : y < x}) = j - 1]

DefaultOpts == [format |-> "humanized", colors |-> TRUE, only |-> FALSE, debug |-> 0, R |-> "none",
                gitignore |-> FALSE, inline |-> "none"]

(***************************************************************************)
(* Input families                                                          *)
(***************************************************************************)
FileNode(p, n, c) == [parent |-> p, name |-> n, kind |-> "file", cls |-> c, ignored |-> FALSE]
DirNode(p, n)     == [parent |-> p, name |-> n, kind |-> "dir", cls |-> "none", ignored |-> FALSE]
HistName(i) == "f" \o ToString(i) \o ".c"

(* history: n files of arbitrary classes, given as explicit paths in order, or found through "." *)
HistoryInputs ==
    {[tree |-> [i \in DOMAIN h |-> FileNode(0, "a.c", h[i])],
      args |-> IF viaDir THEN << [node |-> 0, slash |-> FALSE] >> ELSE [i \in DOMAIN h |-> [node |-> i, slash |-> FALSE]],
      opts |-> [DefaultOpts EXCEPT !.format = fmt]]
       : h \in UNION {[1..m -> Classes \ {"errdef"}] : m \in 0..MaxN}, viaDir \in BOOLEAN,
         fmt \in {"humanized", "json"}}

WellFormedTree(t) ==
    /\ \A i \in DOMAIN t : t[i].parent < i /\ (t[i].parent > 0 => t[t[i].parent].kind = "dir")
    /\ \A i, j \in DOMAIN t : (i # j /\ t[i].parent = t[j].parent) => t[i].name # t[j].name
    /\ \A i \in DOMAIN t : t[i].kind = "file" => t[i].name \in SrcFileNames \cup OtherFileNames
    /\ \A i \in DOMAIN t : t[i].kind = "dir" => t[i].name \in PlainDirNames \cup LikeDirNames

NodeChoices(i) == {FileNode(p, n, "clean") : p \in 0..(i - 1), n \in GenFileNames}
                  \cup {DirNode(p, n) : p \in 0..(i - 1), n \in GenDirNames}
                  \cup {[FileNode(p, n, "clean") EXCEPT !.ignored = TRUE] : p \in 0..(i - 1), n \in {"a.c", "b c.c"}}
Trees(n) == {t \in [1..n -> UNION {NodeChoices(i) : i \in 1..n}] :
                (\A i \in 1..n : t[i] \in NodeChoices(i)) /\ WellFormedTree(t)}
ArgChoices(n) == {[node |-> x, slash |-> FALSE] : x \in (0..n) \cup {0 - 1}}
                 \cup {[node |-> x, slash |-> TRUE] : x \in 1..n}
(* two arguments that mention the same file twice: a node and one of its ancestors (or itself), in either order *)
RECURSIVE AncOrSelf(_, _, _)
AncOrSelf(t, a, i) == IF i = a THEN TRUE ELSE IF i <= 0 THEN FALSE ELSE AncOrSelf(t, a, t[i].parent)
OverlapArgs(t, n) == {<<x, y>> : x \in ArgChoices(n), y \in ArgChoices(n)} \ {p \in ArgChoices(n) \X ArgChoices(n) :
                         p[1].node < 0 \/ p[2].node < 0 \/ ~(AncOrSelf(t, p[1].node, p[2].node) \/ AncOrSelf(t, p[2].node, p[1].node))}
TreeInputs ==
    UNION {{[tree |-> t, args |-> a, opts |-> [DefaultOpts EXCEPT !.gitignore = g]]
              : t \in Trees(n), a \in UNION {[1..m -> ArgChoices(n)] : m \in 0..MaxArgs}, g \in BOOLEAN}
           : n \in 0..MaxN}
    \cup (IF MaxArgs >= 2 THEN {}
          ELSE UNION {UNION {{[tree |-> t, args |-> a, opts |-> DefaultOpts] : a \in OverlapArgs(t, n)}
                                : t \in {u \in Trees(n) : n <= 2 \/ (u[2].parent = 1 /\ u[3].parent = 2)}}     \* 3 nodes: chains only
                      : n \in 1..(IF MaxN < 3 THEN MaxN ELSE 3)})

(* options: one file, every option combination *)
RuleWords == {CheckNames[i] : i \in DOMAIN CheckNames} \cup {PrimaryPairs[i][1] : i \in DOMAIN PrimaryPairs}
RWords == {"none", "CheckDefine", "CheckForbiddenSourceHeader", "CheckDefines", "NoCheckDefine", "Foo"}
OptionInputs ==
    {[tree |-> << FileNode(0, "a.c", c) >>,
      args |-> << [node |-> 1, slash |-> FALSE] >>,
      opts |-> [format |-> f, colors |-> col, only |-> o, debug |-> d, R |-> r, gitignore |-> FALSE, inline |-> inl]]
       : c \in {"clean", "notice", "err", "errdef"}, f \in {"humanized", "json"}, col \in BOOLEAN, o \in BOOLEAN,
         d \in 0..2, r \in RWords, inl \in {"none", "cfile", "cfile+name"}}
    (* an unknown -R word stays unknown when it happens to be the name of a rule of the registry (names extracted from *)
    (* the tree): a file with many different diagnostics keeps them all                                              *)
    \cup {[tree |-> << FileNode(0, "a.c", "errmany") >>,
           args |-> << [node |-> 1, slash |-> FALSE] >>,
           opts |-> [format |-> f, colors |-> TRUE, only |-> FALSE, debug |-> 0, R |-> r, gitignore |-> FALSE, inline |-> "none"]]
            : f \in {"humanized", "json"}, r \in {"none"} \cup RuleWords}

Inputs == IF Family = "history" THEN HistoryInputs
          ELSE IF Family = "tree" THEN TreeInputs ELSE OptionInputs

InputHash(x) == (Len(x.tree) * 7 + Len(x.args) * 3
                 + Cardinality({i \in DOMAIN x.tree : x.tree[i].kind = "dir"}) * 5
                 + Cardinality({i \in DOMAIN x.tree : x.tree[i].cls \in {"err", "fatal"}})
                 + Cardinality({i \in DOMAIN x.args : x.args[i].node > 0}) * 11
                 + x.opts.debug + (IF x.opts.colors THEN 1 ELSE 0)) % NShards

Init == /\ \E x \in {y \in Inputs : InputHash(y) = Shard} :
              tree = x.tree /\ args = x.args /\ opts = x.opts
        /\ stack = <<>> /\ sp = 1 /\ files = <<>> /\ k = 1 /\ out = <<>> /\ status = 0 - 1
        /\ pc = "args" /\ shared = [reclimit |-> 1000]

(***************************************************************************)
(* What one file yields: a pure function of its class and of -R            *)
(***************************************************************************)
Verdict(cls, R) ==
    IF cls \in {"fatal", "fatalif"} THEN "Fatal"
    ELSE IF cls \in {"err", "errmany"} THEN "Error"
    ELSE IF cls = "errdef" THEN (IF R = "CheckDefine" THEN "OK" ELSE "Error")
    ELSE "OK"

(* glob("<dir>/**/*.[ch]", recursive=True): every descendant whose NAME matches *)
GlobUnder(d) == {i \in Desc(d) : IsSrcName(tree[i].name)
                                 /\ (tree[i].kind = "file" \/ "dir_named_like_source" \in Dev)}

(***************************************************************************)
(* Actions, in the order of main()                                         *)
(***************************************************************************)
Begin ==
    /\ pc = "args"
    /\ IF opts.inline # "none"
       THEN /\ files' = << 1 >> /\ stack' = <<>> /\ pc' = "filter"
       ELSE /\ stack' = IF args = <<>> THEN SetToSeq(GlobUnder(0)) ELSE [i \in DOMAIN args |-> args[i].node]
            /\ files' = <<>> /\ pc' = "stack"
    /\ UNCHANGED <<tree, args, opts, sp, k, out, status, shared>>

PopMissing ==
    /\ pc = "stack" /\ sp <= Len(stack) /\ stack[sp] = 0 - 1
    /\ out' = Append(out, [kind |-> "missing", node |-> 0 - 1, st |-> ""])
    /\ status' = 1 /\ pc' = "done"
    /\ UNCHANGED <<tree, args, opts, stack, sp, files, k, shared>>

PopFile ==
    /\ pc = "stack" /\ sp <= Len(stack) /\ stack[sp] > 0 /\ tree[stack[sp]].kind = "file"
    /\ IF tree[stack[sp]].name \in SrcFileNames
       THEN files' = Append(files, stack[sp]) /\ out' = out
       ELSE files' = files /\ out' = Append(out, [kind |-> "reject", node |-> stack[sp], st |-> ""])
    /\ sp' = sp + 1
    /\ UNCHANGED <<tree, args, opts, stack, k, status, pc, shared>>

PopDir ==
    /\ pc = "stack" /\ sp <= Len(stack)
    /\ stack[sp] = 0 \/ (stack[sp] > 0 /\ tree[stack[sp]].kind = "dir")
    /\ stack' = stack \o SetToSeq(GlobUnder(stack[sp]))        \* the list being iterated is extended
    /\ sp' = sp + 1
    /\ UNCHANGED <<tree, args, opts, files, k, out, status, pc, shared>>

StackDone ==
    /\ pc = "stack" /\ sp > Len(stack)
    /\ pc' = "filter"
    /\ UNCHANGED <<tree, args, opts, stack, sp, files, k, out, status, shared>>

GitFilter ==
    /\ pc = "filter"
    /\ files' = IF opts.gitignore THEN SelectSeq(files, LAMBDA f : ~tree[f].ignored) ELSE files
    /\ pc' = "loop" /\ k' = 1
    /\ UNCHANGED <<tree, args, opts, stack, sp, out, status, shared>>

Analyse ==
    /\ pc = "loop" /\ k <= Len(files)
    /\ LET c == tree[files[k]].cls
           v == Verdict(c, opts.R)
       IN  /\ shared' = IF c = "fatalif" /\ "reclimit_leak" \in Dev THEN [reclimit |-> 100] ELSE shared
           /\ IF v = "Fatal"
              THEN /\ out' = Append(out, [kind |-> "fatal", node |-> files[k], st |-> "Error"])
                   /\ IF "abort_on_fatal" \in Dev
                      THEN status' = 1 /\ pc' = "done" /\ k' = k
                      ELSE status' = status /\ pc' = pc /\ k' = k + 1
              ELSE out' = out /\ status' = status /\ pc' = pc /\ k' = k + 1
    /\ UNCHANGED <<tree, args, opts, stack, sp, files>>

Format ==
    /\ pc = "loop" /\ k > Len(files)
    /\ LET parsed == SelectSeq(files, LAMBDA f : Verdict(tree[f].cls, opts.R) # "Fatal")
       IN out' = out \o [j \in DOMAIN parsed |->
                            [kind |-> "verdict", node |-> parsed[j], st |-> Verdict(tree[parsed[j]].cls, opts.R)]]
    /\ pc' = "exit"
    /\ UNCHANGED <<tree, args, opts, stack, sp, files, k, status, shared>>

Exit ==
    /\ pc = "exit"
    /\ status' = IF "exit_last_file" \in Dev
                 THEN (IF files # <<>> /\ tree[files[Len(files)]].cls # "clean" THEN 1 ELSE 0)
                 ELSE IF \E j \in DOMAIN files : Verdict(tree[files[j]].cls, opts.R) # "OK" THEN 1 ELSE 0
    /\ pc' = "done"
    /\ UNCHANGED <<tree, args, opts, stack, sp, files, k, out, shared>>

Next == Begin \/ PopMissing \/ PopFile \/ PopDir \/ StackDone \/ GitFilter \/ Analyse \/ Format \/ Exit
Spec == Init /\ [][Next]_vars
FairSpec == Spec /\ WF_vars(Next)

(***************************************************************************)
(* Properties                                                              *)
(***************************************************************************)
Done == pc = "done"
Aborted == \E j \in DOMAIN out : out[j].kind = "missing"
Lines(kinds) == SelectSeq(out, LAMBDA o : o.kind \in kinds)
Count(seq, x) == Cardinality({j \in DOMAIN seq : seq[j] = x})

(* ---- C04 *)
OneVerdictPerFile ==
    (Done /\ ~Aborted) =>
        \A f \in {files[j] : j \in DOMAIN files} :
            Cardinality({j \in DOMAIN out : out[j].kind \in {"verdict", "fatal"} /\ out[j].node = f})
                = Count(files, f)
OKIffNoError ==
    Done => \A j \in DOMAIN out : out[j].kind = "verdict" =>
                (out[j].st = "OK" <=> tree[out[j].node].cls \in {"clean", "notice"}
                                       \/ (tree[out[j].node].cls = "errdef" /\ opts.R = "CheckDefine"))
ExitZeroIffAllOK ==
    (Done /\ ~Aborted) => (status = 0 <=> \A j \in DOMAIN files : Verdict(tree[files[j]].cls, opts.R) = "OK")
FatalNamesFileAndFails ==
    (Done /\ ~Aborted) =>
        \A j \in DOMAIN files : tree[files[j]].cls \in {"fatal", "fatalif"} =>
            /\ \E o \in DOMAIN out : out[o].kind = "fatal" /\ out[o].node = files[j]
            /\ status # 0
EmptySelectionClean == (Done /\ ~Aborted /\ files = <<>>) => status = 0 /\ Lines({"verdict", "fatal"}) = <<>>
Terminates == <>Done

(* ---- C06 *)
SharedStateRestored == shared = [reclimit |-> 1000]
PureVerdict ==     \* every verdict line is the solo verdict of that file
    \A j \in DOMAIN out : out[j].kind \in {"verdict", "fatal"} =>
        out[j].st = (IF Verdict(tree[out[j].node].cls, opts.R) = "OK" THEN "OK" ELSE "Error")

(* ---- C15: the intended selection, defined without the work-list algorithm *)
RECURSIVE SelectedFrom(_)
SelectedFrom(i) ==     \* bag of files as a function node -> count, for arguments i..Len(args)
    IF i > Len(args) THEN [f \in Nodes |-> 0]
    ELSE LET rest == SelectedFrom(i + 1)
             a == args[i].node
             here == IF a = 0 THEN {f \in Desc(0) : tree[f].kind = "file" /\ tree[f].name \in SrcFileNames}
                     ELSE IF tree[a].kind = "file" THEN (IF tree[a].name \in SrcFileNames THEN {a} ELSE {})
                     ELSE {f \in Desc(a) : tree[f].kind = "file" /\ tree[f].name \in SrcFileNames}
         IN [f \in Nodes |-> rest[f] + (IF f \in here THEN 1 ELSE 0)]
Selected ==
    LET raw == IF args = <<>>
               THEN [f \in Nodes |-> IF tree[f].kind = "file" /\ tree[f].name \in SrcFileNames THEN 1 ELSE 0]
               ELSE SelectedFrom(1)
    IN [f \in Nodes |-> IF opts.gitignore /\ tree[f].ignored THEN 0 ELSE raw[f]]
Rejected == {args[i].node : i \in {j \in DOMAIN args : args[j].node > 0 /\ tree[args[j].node].kind = "file"
                                                        /\ tree[args[j].node].name \notin SrcFileNames}}
HasMissing == \E i \in DOMAIN args : args[i].node = 0 - 1

SelectedExactly ==
    (Done /\ opts.inline = "none") =>
        IF HasMissing THEN Aborted /\ status # 0 /\ Lines({"verdict", "fatal"}) = <<>>
        ELSE /\ \A f \in Nodes : Count(files, f) = Selected[f]
             /\ {out[j].node : j \in {x \in DOMAIN out : out[x].kind = "reject"}} = Rejected

(* ---- C16: the findings do not depend on presentation options *)
OptionsArePresentation ==
    Done => \A j \in DOMAIN out : out[j].kind = "verdict" =>
                out[j].st = Verdict(tree[out[j].node].cls, IF opts.R = "CheckDefine" THEN "CheckDefine" ELSE "none")

TypeOK == /\ pc \in {"args", "stack", "filter", "loop", "exit", "done"}
          /\ status \in {0 - 1, 0, 1}
          /\ sp >= 1 /\ k >= 1
=============================================================================
