------------------------------- MODULE ViolMC -------------------------------
EXTENDS Viol, Json
ExportInv == VDone => PrintT(<<"EXPORT", ToJson([kind |-> FileKind, prog |-> prog, viol |-> viol, nfun |-> nfun])>>)
=============================================================================
