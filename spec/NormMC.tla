------------------------------- MODULE NormMC -------------------------------
EXTENDS NormEngine, Json
ExportInv == Done => PrintT(<<"EXPORT", ToJson([kind |-> FileKind, prog |-> prog, viol |-> viol, nfun |-> nfun])>>)
=============================================================================
