------------------------------- MODULE TokEdits -------------------------------
(***************************************************************************)
(* C05, whole pipeline, TOKEN level.  Edits.tla edits derivations at the   *)
(* level of the items of Norm.tla, which are coarser than tokens           *)
(* ("(void);" is one item).  This module is the second factor of the       *)
(* product the property quantifies over: every token prefix and every      *)
(* bounded token edit (delete / insert / replace / swap) of a program, as  *)
(* a function on token sequences.  TLC enumerates the whole edit set up to *)
(* MaxTok positions and checks that Apply is what it says (ApplyOK on a    *)
(* witness sequence); the harness applies every applicable edit to the     *)
(* token list of every selected program (the first factor: derivations of  *)
(* Norm.tla / Viol.tla rendered and split by the tool's own tokenizer,     *)
(* whose spans tile the text - C10) and runs the result through the whole  *)
(* pipeline: the outcome must be a verdict or the one controlled fatal     *)
(* error, never another exception, never a timeout.                        *)
(***************************************************************************)
EXTENDS Naturals, Sequences, FiniteSets, TLC, Json

CONSTANT MaxTok

(* the token texts that are inserted / substituted *)
Kinds == << "(", ")", "{", "}", "[", "]", ";", ",", "*", " = ", "if ", "else", "return ", "int ", "#", "\"", "/*", "x", "1",
            "\n", "\t", "while ", "?", ":", "&&", "->", ".", "'", "sizeof", "struct ", "typedef ", "static ", "//", "\\\n",
            "...", "const ", "void", "-", "!", "++" >>

EditSet == [op : {"truncate"}, pos : 0..MaxTok, kind : {0}]
      \cup [op : {"delete"}, pos : 1..MaxTok, kind : {0}]
      \cup [op : {"swap"}, pos : 1..(MaxTok - 1), kind : {0}]
      \cup [op : {"insert"}, pos : 0..MaxTok, kind : 1..Len(Kinds)]      \* after token pos (0 = in front of the first)
      \cup [op : {"replace"}, pos : 1..MaxTok, kind : 1..Len(Kinds)]

Applicable(t, e) == IF e.op = "swap" THEN e.pos < Len(t) ELSE e.pos <= Len(t)
Apply(t, e) ==
    CASE e.op = "truncate" -> SubSeq(t, 1, e.pos)
      [] e.op = "delete"   -> SubSeq(t, 1, e.pos - 1) \o SubSeq(t, e.pos + 1, Len(t))
      [] e.op = "swap"     -> SubSeq(t, 1, e.pos - 1) \o <<t[e.pos + 1], t[e.pos]>> \o SubSeq(t, e.pos + 2, Len(t))
      [] e.op = "insert"   -> SubSeq(t, 1, e.pos) \o <<Kinds[e.kind]>> \o SubSeq(t, e.pos + 1, Len(t))
      [] e.op = "replace"  -> SubSeq(t, 1, e.pos - 1) \o <<Kinds[e.kind]>> \o SubSeq(t, e.pos + 1, Len(t))

VARIABLE edit
TInit == edit \in EditSet
TNext == UNCHANGED edit
TSpec == TInit /\ [][TNext]_edit

Witness == <<"a", "b", "c", "d", "e">>
ApplyOK == Applicable(Witness, edit) =>
             LET r == Apply(Witness, edit) IN
             /\ edit.op = "truncate" => (Len(r) = edit.pos /\ \A i \in 1..Len(r) : r[i] = Witness[i])
             /\ edit.op = "delete" => (Len(r) = Len(Witness) - 1 /\ \A i \in 1..Len(r) : r[i] = Witness[IF i < edit.pos THEN i ELSE i + 1])
             /\ edit.op = "swap" => (Len(r) = Len(Witness) /\ r[edit.pos] = Witness[edit.pos + 1] /\ r[edit.pos + 1] = Witness[edit.pos])
             /\ edit.op = "insert" => (Len(r) = Len(Witness) + 1 /\ r[edit.pos + 1] = Kinds[edit.kind])
             /\ edit.op = "replace" => (Len(r) = Len(Witness) /\ r[edit.pos] = Kinds[edit.kind])
ExportInv == PrintT(<<"EXPORT", ToJson([op |-> edit.op, pos |-> edit.pos, kind |-> edit.kind,
                                        text |-> IF edit.kind = 0 THEN "" ELSE Kinds[edit.kind]])>>)
=============================================================================
