----------------------------- MODULE RuleOrder -----------------------------
(***************************************************************************)
(* C06, rule order: the order in which rules run must be a function of the *)
(* rule tables alone, not of the order in which the file system lists the  *)
(* rule modules.  Primaries are sorted by priority (a stable sort: ties    *)
(* keep import order), checks by name.  With the tables EXTRACTED from the *)
(* working tree, TLC checks that no tie exists and that sorting any        *)
(* rotation / reversal of the listing gives the same order.                *)
(***************************************************************************)
EXTENDS Naturals, Sequences, FiniteSets, TLC, Extracted

Prio(i) == PrimaryPairs[i][2]
ASSUME DistinctPriorities ==
    \A i, j \in DOMAIN PrimaryPairs : i # j => Prio(i) # Prio(j)
ASSUME DistinctPrimaryNames ==
    \A i, j \in DOMAIN PrimaryPairs : i # j => PrimaryPairs[i][1] # PrimaryPairs[j][1]
ASSUME DistinctCheckNames ==
    \A i, j \in DOMAIN CheckNames : i # j => CheckNames[i] # CheckNames[j]

(* stable insertion sort by descending priority, as sorted(..., reverse=True, key=priority) *)
RECURSIVE Insert(_, _)
Insert(s, x) == IF s = <<>> THEN <<x>>
                ELSE IF x[2] > Head(s)[2] THEN <<x>> \o s
                ELSE <<Head(s)>> \o Insert(Tail(s), x)
RECURSIVE SortDesc(_)
SortDesc(s) == IF s = <<>> THEN <<>> ELSE Insert(SortDesc(SubSeq(s, 1, Len(s) - 1)), s[Len(s)])

Rotate(s, k) == [i \in DOMAIN s |-> s[((i + k - 1) % Len(s)) + 1]]
Reverse(s) == [i \in DOMAIN s |-> s[Len(s) + 1 - i]]
ASSUME OrderIndependent ==
    /\ \A k \in 0..(Len(PrimaryPairs) - 1) : SortDesc(Rotate(PrimaryPairs, k)) = SortDesc(PrimaryPairs)
    /\ SortDesc(Reverse(PrimaryPairs)) = SortDesc(PrimaryPairs)

VARIABLE dummy
Init == dummy = 0
Next == UNCHANGED dummy
Spec == Init /\ [][Next]_dummy
Trivial == dummy = 0
=============================================================================
