--------------------------- MODULE LexerRespell ---------------------------
(***************************************************************************)
(* C12: alternative spellings and line splices do not change the tokens.   *)
(*                                                                         *)
(* Two instances of the tokenizer machine.  A runs on a PLAIN text (no     *)
(* digraph, trigraph or splice in it).  When A is done, a respelling chi   *)
(* is chosen: for every character that has one, its plain, digraph or      *)
(* trigraph spelling; for every boundary between two of A's tokens, no     *)
(* splice, a backslash-newline or a ??/-newline.  B runs on the respelled  *)
(* text.  RespellInv: both produce the same (type, text) sequence.         *)
(* TLC explores every plain text of the alphabet up to MaxLen and EVERY    *)
(* chi (bounded by MaxAlt non-plain choices per text).                     *)
(***************************************************************************)
EXTENDS Chars

CONSTANTS Alpha, MaxLen, Dev, Shard, NShards, MaxAlt

VARIABLES srcA, posA, lineA, colA, segsA, diagsA, sitesA, modeA,
          srcB, posB, lineB, colB, segsB, diagsB, sitesB, modeB,
          phase
varsA == <<srcA, posA, lineA, colA, segsA, diagsA, sitesA, modeA>>
varsB == <<srcB, posB, lineB, colB, segsB, diagsB, sitesB, modeB>>
rvars == <<varsA, varsB, phase>>

A == INSTANCE Lexer WITH src <- srcA, pos <- posA, line <- lineA, col <- colA, segs <- segsA,
                         diags <- diagsA, sites <- sitesA, mode <- modeA
B == INSTANCE Lexer WITH src <- srcB, pos <- posB, line <- lineB, col <- colB, segs <- segsB,
                         diags <- diagsB, sites <- sitesB, mode <- modeB

(* spellings of one plain character: plain first *)
TriOf(c) == {TrigraphPairs[i][1] : i \in {j \in DOMAIN TrigraphPairs : TrigraphPairs[j][2] = c}}
DiOf(c)  == {DigraphPairs[i][1]  : i \in {j \in DOMAIN DigraphPairs  : DigraphPairs[j][2]  = c}}
Spellings(c) == {<<c>>} \cup TriOf(c) \cup DiOf(c)
SpA == <<BSL, NL>>
SpB == <<"?", "?", "/", NL>>
(* none, one splice of either form, or two consecutive splices in every combination of forms *)
SpliceChoices == {<<>>, SpA, SpB, SpA \o SpA, SpA \o SpB, SpB \o SpA, SpB \o SpB}

(* plain: nothing in it is translated or spliced *)
Plain == /\ \A i \in 1..Len(srcA) : A!Tr(i).w = 1
         /\ \A i \in 1..Len(srcA) : ~A!IsSpliceAt(i)

(* interior token boundaries of A's run: raw offsets where a token starts, except the first token *)
Bounds == {A!Toks[i].s : i \in 2..Len(A!Toks)}

(* all respellings of srcA[i..]: set of [t: text, n: number of non-plain choices] *)
RECURSIVE Resp(_)
Resp(i) ==
    IF i > Len(srcA) THEN {[t |-> <<>>, n |-> 0]}
    ELSE LET rest == Resp(i + 1)
             sp   == IF i \in Bounds THEN SpliceChoices ELSE {<<>>}
         IN {[t |-> s \o c \o r.t, n |-> r.n + (IF s = <<>> THEN 0 ELSE IF s \in {SpA, SpB} THEN 1 ELSE 2) + (IF c = <<srcA[i]>> THEN 0 ELSE 1)] :
                s \in sp, c \in Spellings(srcA[i]), r \in rest}
Respellings == {r.t : r \in {x \in Resp(1) : x.n >= 1 /\ x.n <= MaxAlt}}

(* decoding the respelled text by the C rules gives back the plain text: no accidental trigraph/digraph *)
RECURSIVE Decode(_, _)
Decode(s, i) == IF i > Len(s) THEN <<>>
                ELSE LET r3 == IF i + 2 <= Len(s) THEN SubSeq(s, i, i + 2) ELSE <<>>
                         r2 == IF i + 1 <= Len(s) THEN SubSeq(s, i, i + 1) ELSE <<>>
                         t  == IF r3 \in DOMAIN Trigraph THEN [c |-> Trigraph[r3], w |-> 3]
                               ELSE IF r2 \in DOMAIN Digraph THEN [c |-> Digraph[r2], w |-> 2]
                               ELSE [c |-> s[i], w |-> 1]
                     IN IF t.c = BSL /\ i + t.w <= Len(s) /\ s[i + t.w] = NL THEN Decode(s, i + t.w + 1)
                        ELSE <<t.c>> \o Decode(s, i + t.w)
Faithful(s) == Decode(s, 1) = srcA

RInit == /\ A!Init
         /\ srcB = <<>> /\ posB = 1 /\ lineB = 1 /\ colB = 1 /\ segsB = <<>> /\ diagsB = <<>>
         /\ sitesB = {} /\ modeB = "idle"
         /\ phase = "A"

StepA == /\ phase = "A" /\ modeA = "run" /\ Plain
         /\ A!Step /\ UNCHANGED <<varsB, phase>>
Choose == /\ phase = "A" /\ modeA = "done" /\ Plain
          /\ srcB' \in {s \in Respellings : Faithful(s)}
          /\ posB' = 1 /\ lineB' = 1 /\ colB' = 1 /\ segsB' = <<>> /\ diagsB' = <<>> /\ sitesB' = {}
          /\ modeB' = "run" /\ phase' = "B"
          /\ UNCHANGED varsA
StepB == /\ phase = "B" /\ modeB = "run"
         /\ B!Step /\ UNCHANGED <<varsA, phase>>

RNext == StepA \/ Choose \/ StepB
RSpec == RInit /\ [][RNext]_rvars

TT(toks) == [i \in DOMAIN toks |-> <<toks[i].type, toks[i].text>>]

RespellInv == (phase = "B" /\ modeB = "done") => TT(A!Toks) = TT(B!Toks)
NoCrashB   == modeB # "crash"
(* lock-step prefix: what B has produced so far is a prefix of what A produced *)
PrefixInv  == phase = "B" => /\ Len(B!Toks) <= Len(A!Toks)
                             /\ \A i \in DOMAIN B!Toks : TT(B!Toks)[i] = TT(A!Toks)[i]
=============================================================================
