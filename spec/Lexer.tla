------------------------------- MODULE Lexer -------------------------------
(***************************************************************************)
(* The tokenizer of norminette (norminette/lexer/lexer.py) as a state      *)
(* machine: one step per call of Lexer.get_next_token's sub-steps          *)
(* (inter-token splice, one token, one bad lexeme).                        *)
(*                                                                         *)
(* The actions are IMPLEMENTATION-SHAPED: one operator per sub-parser, in  *)
(* the implementation's priority order, with the same look-ahead, the same *)
(* regular-expression semantics (transcribed, not abstracted) and the      *)
(* same incremental (line, column) bookkeeping.                            *)
(*                                                                         *)
(* The oracles (TruePos, NormText, the tiling law) are INTENT-SHAPED:      *)
(* closed forms over the raw text that do not look at the machine.  TLC    *)
(* checks that the machine satisfies them on every string of the           *)
(* configured alphabet (C05 tokenizer totality, C09 positions, C10         *)
(* losslessness).                                                          *)
(*                                                                         *)
(* Dev is the set of DELIBERATE DEVIATIONS switched on: places where the   *)
(* implementation is known to depart from the intent (known_findings.json, *)
(* status "known").  With Dev = {} the module is the intent and all        *)
(* invariants hold; with Dev = the listed findings it reproduces the       *)
(* implementation exactly, which lets the harness tell a known finding     *)
(* from a new violation.                                                   *)
(***************************************************************************)
EXTENDS Chars

CONSTANTS Alpha,         \* sequence of distinct 1-character strings: the alphabet
          MaxLen,        \* strings of length 0..MaxLen are explored
          Dev,           \* subset of DevNames
          Shard, NShards \* this process explores strings with Hash(src) % NShards = Shard

Alphabet == {Alpha[i] : i \in DOMAIN Alpha}

DevNames == {"splice_col0",        \* column restarts at 0 (not 1) after a splice inside a token
             "esc_rawwidth",       \* "\" followed by a tri/digraph consumes 1 raw char of it
             "badlex_raw",         \* a bad lexeme spelled as a trigraph consumes 1 raw char of it
             "char_eol_eats_nl",   \* the newline ending an unterminated char constant is swallowed
             "char_splice_nl",     \* ... still swallowed when a line splice sits directly in front of it
             "comment_splice_nl",  \* after a splice in a // comment the next char is consumed blindly
             "string_splice_eof",  \* string ending in splice + end of input: UnexpectedEOF escapes
             "dot_eq_keyerror",    \* ".=" raises KeyError
             "esc_tab_width"}      \* backslash + TAB inside a literal advances the column by 1, not to the tab stop
ASSUME Dev \subseteq DevNames

VARIABLES src,    \* the raw text, Seq(Char)
          pos,    \* 1-based offset of the next raw character
          line, col,   \* position of that character (the implementation's __line, __line_pos)
          segs,   \* history: everything consumed so far, see Seg below
          diags,  \* lexical diagnostics: [code, level, hl]  (hl = Seq(<<line, col>>))
          sites,  \* history: names of the deviation sites met so far (independent of Dev)
          mode    \* "run" | "done" | "crash"
vars == <<src, pos, line, col, segs, diags, sites, mode>>

N == Len(src)
Ch(i) == IF i >= 1 /\ i <= N THEN src[i] ELSE EOF
Raw(i, n) == IF i > N THEN <<>> ELSE SubSeq(src, i, Min(i + n - 1, N))

(* Run(p, S): how many consecutive raw characters from p lie in S *)
Run(p, S) == CHOOSE n \in 0..(N + 1 - Min(p, N + 1)) :
                 /\ \A j \in 0..(n - 1) : Ch(p + j) \in S
                 /\ Ch(p + n) \notin S

(***************************************************************************)
(* Translation (Lexer.peek): trigraph before digraph before plain.         *)
(***************************************************************************)
Tr(i) == IF Len(Raw(i, 3)) = 3 /\ Raw(i, 3) \in DOMAIN Trigraph THEN [c |-> Trigraph[Raw(i, 3)], w |-> 3]
         ELSE IF Len(Raw(i, 2)) = 2 /\ Raw(i, 2) \in DOMAIN Digraph THEN [c |-> Digraph[Raw(i, 2)], w |-> 2]
         ELSE IF i <= N THEN [c |-> src[i], w |-> 1]
         ELSE [c |-> EOF, w |-> 0]

IsSpliceAt(i) == LET t == Tr(i) IN t.c = BSL /\ Ch(i + t.w) = NL
SpliceW(i)    == Tr(i).w + 1

SpliceCol == IF "splice_col0" \in Dev THEN 0 ELSE 1

Cur(p, l, c) == [p |-> p, l |-> l, c |-> c]
Diag(code, level, hl) == [code |-> code, level |-> level, hl |-> hl]

(***************************************************************************)
(* Lexer.pop: one translated character, skipping splices in front of it,   *)
(* optionally reading an escape sequence as one unit.                      *)
(* Result: [k: cursor after, t: text, ok: FALSE iff end of input was hit,  *)
(*          d: diagnostics]                                                *)
(***************************************************************************)
RECURSIVE AfterSplices(_)
AfterSplices(k) == IF IsSpliceAt(k.p)
                   THEN AfterSplices(Cur(k.p + SpliceW(k.p), k.l + 1, SpliceCol))
                   ELSE k

SimpleEsc == {"a","b","e","f","n","r","t","v",BSL,DQ,SQ,"?"}

(* width the implementation adds for the character after the backslash *)
EscW(n) == IF "esc_rawwidth" \in Dev THEN 1 ELSE n.w

PopPlain(k, t, sp) ==
    IF t.c = NL THEN [k |-> Cur(k.p + t.w, k.l + 1, 1), t |-> <<NL>>, ok |-> TRUE, d |-> <<>>, dv |-> {}]
    ELSE IF t.c = TAB THEN [k |-> Cur(k.p + t.w, k.l, k.c + TabW(k.c)),
                            t |-> IF sp THEN Spaces(TabW(k.c)) ELSE <<TAB>>, ok |-> TRUE, d |-> <<>>, dv |-> {}]
    ELSE [k |-> Cur(k.p + t.w, k.l, k.c + t.w), t |-> <<t.c>>, ok |-> TRUE, d |-> <<>>, dv |-> {}]

PopEscape(k, t, n) ==      \* t = the backslash at k.p, n = the translated character after it
    LET q == k.p + t.w IN
    IF n.c \in SimpleEsc THEN
        [k |-> Cur(q + EscW(n), k.l, k.c + t.w + EscW(n)), t |-> <<BSL, n.c>>, ok |-> TRUE, d |-> <<>>,
         dv |-> IF n.w > 1 THEN {"esc_rawwidth"} ELSE {}]
    ELSE IF n.c = "x" THEN
        LET h == Min(Run(q + 1, HexDigit), 2) IN
        IF h = 0
        THEN [k |-> Cur(q + 1, k.l, k.c + t.w + 1), t |-> <<BSL, "x">>, ok |-> TRUE,
              d |-> <<Diag("NO_HEX_DIGITS", "Notice", << <<k.l, k.c + t.w>> >>)>>, dv |-> {}]
        ELSE [k |-> Cur(q + 1 + h, k.l, k.c + t.w + 1 + h), t |-> <<BSL, "x">> \o Raw(q + 1, h),
              ok |-> TRUE, d |-> <<>>, dv |-> {}]
    ELSE IF n.c \in OctDigit /\ n.w = 1 THEN
        LET o == Run(q, OctDigit) IN
        [k |-> Cur(q + o, k.l, k.c + t.w + o), t |-> <<BSL>> \o Raw(q, o), ok |-> TRUE, d |-> <<>>, dv |-> {}]
    ELSE
        LET cw == IF n.c = TAB /\ "esc_tab_width" \notin Dev THEN TabW(k.c + t.w) ELSE EscW(n) IN
        [k |-> Cur(q + EscW(n), k.l, k.c + t.w + cw), t |-> <<BSL, n.c>>, ok |-> TRUE,
         d |-> <<Diag("UNKNOWN_ESCAPE", "Notice", << <<k.l, k.c + t.w>> >>)>>,
         dv |-> (IF n.w > 1 THEN {"esc_rawwidth"} ELSE {}) \cup (IF n.c = TAB THEN {"esc_tab_width"} ELSE {})]

PopOne(k0, esc, sp) ==
    LET k == AfterSplices(k0)
        t == Tr(k.p)
        sd == IF k # k0 THEN {"splice_col0"} ELSE {}
        r  == IF t.w = 0 THEN [k |-> k, t |-> <<>>, ok |-> FALSE, d |-> <<>>, dv |-> {}]
              ELSE IF t.c = BSL /\ esc /\ Tr(k.p + t.w).w > 0 THEN PopEscape(k, t, Tr(k.p + t.w))
              ELSE PopPlain(k, t, sp)
    IN  [r EXCEPT !.dv = @ \cup sd]

(***************************************************************************)
(* The regular expressions of the numeric literals, transcribed.           *)
(* All of them work on RAW characters from offset p.                       *)
(***************************************************************************)
DotWord == WordCh \cup {"."}
Sign    == {"+", "-"}

(* (?:[E]+[-+]D+ | [E]+D+ | (?:[E][+-]?(?:[.D]+)?)+ ): length matched, 0 = no match *)
RECURSIVE ExpAlt3(_, _, _)
ExpAlt3(p, E, D) == IF Ch(p) \notin E THEN 0
                    ELSE LET s == IF Ch(p + 1) \in Sign THEN 1 ELSE 0
                             r == Run(p + 1 + s, D \cup {"."})
                         IN 1 + s + r + ExpAlt3(p + 1 + s + r, E, D)
ExpMatch(p, E, D) ==
    LET e == Run(p, E) IN
    IF e = 0 THEN 0
    ELSE IF Ch(p + e) \in Sign /\ Run(p + e + 1, D) >= 1 THEN e + 1 + Run(p + e + 1, D)
    ELSE IF Run(p + e, D) >= 1 THEN e + Run(p + e, D)
    ELSE ExpAlt3(p, E, D)

NoFloat == [type |-> "none", c |-> 0, x |-> 0, s |-> 0]

FloatMatch(p) ==
    LET i  == Run(p, Digit)
        xe == ExpMatch(p + i, {"e", "E"}, Digit)
    IN
    IF i >= 1 /\ xe >= 1 THEN [type |-> "exponent", c |-> i, x |-> xe, s |-> Run(p + i + xe, DotWord)]
    ELSE
    LET fc == IF Ch(p + i) = "." /\ Run(p + i + 1, Digit) >= 1 THEN i + 1 + Run(p + i + 1, Digit)
              ELSE IF i >= 1 /\ Ch(p + i) = "." THEN i + 1
              ELSE 0
    IN
    IF fc >= 1 THEN LET x == ExpMatch(p + fc, {"e", "E"}, Digit)
                    IN [type |-> "fractional", c |-> fc, x |-> x, s |-> Run(p + fc + x, DotWord)]
    ELSE
    LET xs == Run(p + 1, {"x", "X"})
        h  == Run(p + 1 + xs, HexDigit)
        hf == IF Ch(p + 1 + xs + h) = "." /\ Run(p + 2 + xs + h, HexDigit) >= 1
              THEN 1 + Run(p + 2 + xs + h, HexDigit) ELSE 0
        hc == 1 + xs + h + hf
    IN
    IF Ch(p) = "0" /\ xs >= 1 /\ h >= 1
    THEN LET x == ExpMatch(p + hc, {"p", "P"}, HexDigit)
         IN [type |-> "hexadecimal", c |-> hc, x |-> x, s |-> Run(p + hc + x, DotWord), xs |-> xs, hf |-> hf]
    ELSE NoFloat

(* re.match(rf"[{mark}][-+]?\d+", Exponent) *)
GoodExponent(p, E) == /\ Ch(p) \in E
                      /\ LET s == IF Ch(p + 1) \in Sign THEN 1 ELSE 0 IN Ch(p + 1 + s) \in Digit

HasDot(p, n) == \E j \in 0..(n - 1) : Ch(p + j) = "."

(* INT_LITERAL_PATTERN; result [pre, c, s] lengths, c = 0: no match *)
IntMatch(p) ==
    LET k == IF Ch(p) # "0" THEN 0          \* 0(?:[xX]+|[bB]+)? : a run of ONE kind of prefix letter
             ELSE IF Ch(p + 1) \in {"x", "X"} THEN Run(p + 1, {"x", "X"})
             ELSE Run(p + 1, {"b", "B"})
        \* candidate prefix lengths, longest first; 0 = empty prefix
        Cand(pl) ==     \* constant length for prefix length pl, 0 = fails
            IF pl = 2 /\ Ch(p + 1) \in {"x", "X"} /\ Run(p + 2, HexDigit) >= 1 THEN Run(p + 2, HexDigit)
            ELSE Run(p + pl, Digit)
        PLs == IF Ch(p) = "0" THEN {pl \in 0..(k + 1) : Cand(pl) >= 1} ELSE {pl \in {0} : Cand(pl) >= 1}
    IN  IF PLs = {} THEN [pre |-> 0, c |-> 0, s |-> 0]
        ELSE LET pl == CHOOSE x \in PLs : \A y \in PLs : y <= x
                 c  == Cand(pl)
                 ce == p + pl + c
                 s  == IF Ch(ce - 1) \in {"e", "E"} THEN Run(ce, WordCh \cup {"+", "-", "."})
                       ELSE IF Ch(ce) \in WordCh THEN 1 + Run(ce + 1, DotWord)
                       ELSE 0
             IN [pre |-> pl, c |-> c, s |-> s]

(***************************************************************************)
(* One lexeme at cursor k.  Result:                                        *)
(*   [kind: "tok"|"bad"|"skip"|"eof"|"crash", type, text, k: cursor after, *)
(*    d: diagnostics]                                                      *)
(***************************************************************************)
ResD(kind, type, text, k, d, dv) == [kind |-> kind, type |-> type, text |-> text, k |-> k, d |-> d, dv |-> dv]
Res(kind, type, text, k, d) == ResD(kind, type, text, k, d, {})
None == Res("none", "", <<>>, Cur(0, 0, 0), <<>>)

(* n plain pops of raw, untranslated, non-splice characters *)
AdvancePlain(k, n) == Cur(k.p + n, k.l, k.c + n)

FloatLit(k) ==
    LET m == FloatMatch(k.p)
        n == m.c + m.x + m.s
        ccol == k.c + m.c
    IN
    IF m.type = "none" THEN None
    ELSE IF m.type = "hexadecimal" /\ m.hf = 0 /\ m.x = 0 THEN None   \* hexadecimal integer
    ELSE
    LET d == IF (m.type = "exponent" \/ m.x > 0)
                /\ ~GoodExponent(k.p + m.c, IF m.type = "hexadecimal" THEN {"p", "P"} ELSE {"e", "E"})
                THEN <<Diag("BAD_EXPONENT", "Error", << <<k.l, ccol>> >>)>>
             ELSE IF m.type = "hexadecimal" /\ m.xs # 1
                THEN <<Diag("MULTIPLE_X", "Error", << <<k.l, k.c + 1>> >>)>>
             ELSE IF (IF m.type = "hexadecimal" THEN m.hf > 0 ELSE HasDot(k.p, m.c))
                     /\ HasDot(k.p + m.c + m.x, m.s)
                THEN <<Diag("MULTIPLE_DOTS", "Error", << <<k.l, ccol>> >>)>>
             ELSE IF Raw(k.p + m.c + m.x, m.s) \notin FloatSuffixes
                THEN <<Diag("BAD_FLOAT_SUFFIX", "Error", << <<k.l, ccol + m.x>> >>)>>
             ELSE <<>>
    IN Res("tok", "CONSTANT", Raw(k.p, n), AdvancePlain(k, n), d)

IntLit(k) ==
    LET m == IntMatch(k.p)
        n == m.pre + m.c + m.s
        suf == Raw(k.p + m.pre + m.c, m.s)
        pre == Raw(k.p, m.pre)
        bucket == IF pre \in {<<"0","b">>, <<"0","B">>} THEN {"0", "1"}
                  ELSE IF pre = <<"0">> THEN OctDigit
                  ELSE HexDigit \cup Digit
        badIdx == {j \in 0..(m.c - 1) : Ch(k.p + m.pre + j) \notin bucket}
        SeqOfSet(S) == [i \in 1..Cardinality(S) |->
                          CHOOSE x \in S : Cardinality({y \in S : y < x}) = i - 1]
        d1 == IF suf \in IntSuffixes THEN <<>>
              ELSE IF suf[1] \in Sign
                   THEN <<Diag("MAXIMAL_MUNCH", "Error", << <<k.l, k.c + m.pre + m.c>> >>)>>
                   ELSE <<Diag("INVALID_SUFFIX", "Error", << <<k.l, k.c + m.pre + m.c>> >>)>>
        d2 == IF badIdx = {} \/ m.pre = 0 THEN <<>>
              ELSE <<Diag(IF bucket = {"0", "1"} THEN "INVALID_BIN_INT" ELSE "INVALID_OCT_INT", "Error",
                          [i \in 1..Cardinality(badIdx) |-> <<k.l, k.c + m.pre + SeqOfSet(badIdx)[i]>>])>>
    IN IF m.c = 0 THEN None
       ELSE Res("tok", "CONSTANT", Raw(k.p, n), AdvancePlain(k, n), d1 \o d2)

(* prefix of a character / string literal: raw look-ahead, first match in table order *)
PrefixLen(p, q) ==
    LET ok(i) == LET pf == QuotePrefixes[i] IN
                 Len(Raw(p, Len(pf) + 1)) = Len(pf) + 1 /\ Raw(p, Len(pf)) = pf /\ Ch(p + Len(pf)) = q
        I == {i \in DOMAIN QuotePrefixes : ok(i)}
    IN IF I = {} THEN 0 ELSE Len(QuotePrefixes[CHOOSE i \in I : \A j \in I : i <= j])

(* body of a character constant; val = text so far, n = characters read *)
RECURSIVE CharBody(_, _, _, _)
CharBody(k0, k, val, n) ==
    LET ka == AfterSplices(k)
        r  == PopOne(k, TRUE, FALSE)
        hl0 == <<k0.l, k0.c>>
    IN
    IF ~r.ok THEN
        [k |-> r.k, val |-> val, n |-> n, closed |-> FALSE, dv |-> r.dv,
         d |-> <<Diag("UNEXPECTED_EOF_CHR", "Error", <<hl0>>)>>]
    ELSE IF r.t = <<NL>> THEN
        [k |-> IF "char_eol_eats_nl" \in Dev \/ ("char_splice_nl" \in Dev /\ ka # k) THEN r.k ELSE ka,
         val |-> val, n |-> n, closed |-> FALSE,
         dv |-> r.dv \cup (IF ka # k THEN {"char_splice_nl"} ELSE {"char_eol_eats_nl"}),
         d |-> <<Diag("UNEXPECTED_EOL_CHR", "Error", <<hl0, <<k0.l, k0.c + Len(val)>> >>)>>]
    ELSE IF r.t = <<SQ>> THEN
        [k |-> r.k, val |-> val \o r.t, n |-> n, closed |-> TRUE, d |-> r.d, dv |-> r.dv]
    ELSE LET rest == CharBody(k0, r.k, val \o r.t, n + 1)
         IN [rest EXCEPT !.d = r.d \o rest.d, !.dv = r.dv \cup rest.dv]

CharLit(k) ==
    LET pl == PrefixLen(k.p, SQ)
        kq == AdvancePlain(k, pl + 1)                 \* after the opening quote
        b  == CharBody(k, kq, Raw(k.p, pl + 1), 0)
        d  == b.d
              \o (IF b.n = 0 /\ Len(b.val) >= 2 /\ b.val[Len(b.val)] = SQ /\ b.val[Len(b.val) - 1] = SQ
                  THEN <<Diag("EMPTY_CHAR", "Error", << <<k.l, k.c>> >>)>> ELSE <<>>)
              \o (IF b.n > 1 /\ b.val[Len(b.val)] = SQ     \* sic: also when the last character is an escaped quote
                  THEN <<Diag("CHAR_AS_STRING", "Error", << <<k.l, k.c>>, <<k.l, k.c>> >>)>> ELSE <<>>)
    IN IF Ch(k.p + pl) # SQ THEN None
       ELSE ResD("tok", "CHAR_CONST", b.val, b.k, d, b.dv)

RECURSIVE StrBody(_, _, _)
StrBody(k0, k, val) ==
    LET r == PopOne(k, TRUE, FALSE)
        eofd == <<Diag("UNEXPECTED_EOF_STR", "Error", << <<k0.l, k0.c>>, <<k0.l, k0.c + Len(val)>> >>)>>
    IN
    IF Tr(k.p).w = 0 THEN [k |-> k, val |-> val, d |-> eofd, crash |-> FALSE, dv |-> {}]
    ELSE IF ~r.ok THEN     \* only splices were left before the end of input
        [k |-> r.k, val |-> val, d |-> eofd, crash |-> "string_splice_eof" \in Dev,
         dv |-> r.dv \cup {"string_splice_eof"}]
    ELSE IF r.t = <<DQ>> THEN [k |-> r.k, val |-> val \o r.t, d |-> r.d, crash |-> FALSE, dv |-> r.dv]
    ELSE LET rest == StrBody(k0, r.k, val \o r.t)
         IN [rest EXCEPT !.d = r.d \o rest.d, !.dv = r.dv \cup rest.dv]

StringLit(k) ==
    LET pl == PrefixLen(k.p, DQ)
        kq == AdvancePlain(k, pl + 1)
        b  == StrBody(k, kq, Raw(k.p, pl + 1))
    IN IF Ch(k.p + pl) # DQ THEN None
       ELSE ResD(IF b.crash THEN "crash" ELSE "tok", "STRING", b.val, b.k, b.d, b.dv)

Identifier(k) ==
    LET n == Run(k.p, IdChar)
        w == Raw(k.p, n)
    IN IF Ch(k.p) \notin IdStart THEN None
       ELSE Res("tok", IF w \in DOMAIN Keyword THEN Keyword[w] ELSE "IDENTIFIER", w, AdvancePlain(k, n), <<>>)

Whitespace(k) ==
    LET c == Ch(k.p) IN
    IF c = SP THEN Res("tok", "SPACE", <<SP>>, Cur(k.p + 1, k.l, k.c + 1), <<>>)
    ELSE IF c = TAB THEN Res("tok", "TAB", <<TAB>>, Cur(k.p + 1, k.l, k.c + TabW(k.c)), <<>>)
    ELSE IF c = NL THEN Res("tok", "NEWLINE", <<NL>>, Cur(k.p + 1, k.l + 1, 1), <<>>)
    ELSE None

RECURSIVE LineBody(_, _)
LineBody(k, val) ==
    LET ka == IF "comment_splice_nl" \in Dev THEN k ELSE AfterSplices(k)
        t  == Tr(ka.p)
        r  == PopOne(k, FALSE, FALSE)
    IN IF t.w = 0 \/ t.c = NL
       THEN [k |-> ka, val |-> val,
             dv |-> IF ka # k THEN {"splice_col0"} \cup (IF t.c = NL THEN {"comment_splice_nl"} ELSE {}) ELSE {}]
       ELSE IF ~r.ok THEN [k |-> r.k, val |-> val, dv |-> r.dv]
       ELSE LET rest == LineBody(r.k, val \o r.t)
            IN [rest EXCEPT !.dv = @ \cup r.dv \cup
                    (IF r.t = <<NL>> THEN {"comment_splice_nl"} ELSE {})]

LineComment(k) ==
    IF Raw(k.p, 2) # <<"/", "/">> THEN None
    ELSE LET b == LineBody(AdvancePlain(k, 2), <<"/", "/">>)
         IN ResD("tok", "COMMENT", b.val, b.k, <<>>, b.dv)

EndsStarSlash(v) == Len(v) >= 2 /\ v[Len(v) - 1] = "*" /\ v[Len(v)] = "/"

RECURSIVE BlockBody(_, _)
BlockBody(k, val) ==
    LET r == PopOne(k, FALSE, TRUE) IN
    IF Tr(k.p).w = 0 THEN [k |-> k, val |-> val, eof |-> TRUE, dv |-> {}]
    ELSE IF ~r.ok THEN [k |-> r.k, val |-> val, eof |-> TRUE, dv |-> r.dv]
    ELSE IF EndsStarSlash(val \o r.t) THEN [k |-> r.k, val |-> val \o r.t, eof |-> FALSE, dv |-> r.dv]
    ELSE LET rest == BlockBody(r.k, val \o r.t) IN [rest EXCEPT !.dv = @ \cup r.dv]

BlockComment(k) ==
    IF Raw(k.p, 2) # <<"/", "*">> THEN None
    ELSE LET b == BlockBody(AdvancePlain(k, 2), <<"/", "*">>)
         IN ResD("tok", "MULT_COMMENT", b.val, b.k,
                 IF b.eof THEN <<Diag("UNEXPECTED_EOF_MC", "Error", << <<k.l, k.c>> >>)>> ELSE <<>>, b.dv)

OpStart == {"+","-","*","/",",","<",">","^","&","|","!","=","%",";",":",".","~","?","#"}
OpMulti == {".","+","-","*","/","%","<",">","^","&","|","!","="}

OperatorLit(k) ==
    LET t  == Tr(k.p)
        t2 == Tr(k.p + t.w)
        two == IF t2.w = 0 THEN <<t.c>> ELSE <<t.c, t2.c>>
        tok(text, w) == Res("tok", Operator[text], text, Cur(k.p + w, k.l, k.c + w), <<>>)
    IN
    IF t.c \notin OpStart THEN None
    ELSE IF t.c \in OpMulti /\ Raw(k.p, 3) \in {<<">",">","=">>, <<"<","<","=">>, <<".",".",".">>}
        THEN tok(Raw(k.p, 3), 3)
    ELSE IF t.c \in OpMulti /\ two \in {<<">",">">>, <<"<","<">>, <<"-",">">>} THEN tok(two, t.w + t2.w)
    ELSE IF t.c \in OpMulti /\ two = <<t.c, "=">> /\ two \notin DOMAIN Operator /\ "dot_eq_keyerror" \in Dev
        THEN ResD("crash", "KeyError", two, k, <<>>, {"dot_eq_keyerror"})   \* ".=": operators[".="] raises KeyError
    ELSE IF t.c \in OpMulti /\ two = <<t.c, "=">> /\ two \in DOMAIN Operator THEN tok(two, t.w + t2.w)
    ELSE IF t.c \in {"+","-","<",">","=","&","|"} /\ two = <<t.c, t.c>> THEN tok(two, t.w + t2.w)
    ELSE IF t.c \in OpMulti /\ two = <<t.c, "=">> /\ two \notin DOMAIN Operator
        THEN ResD("tok", Operator[<<t.c>>], <<t.c>>, Cur(k.p + t.w, k.l, k.c + t.w), <<>>, {"dot_eq_keyerror"})
    ELSE tok(<<t.c>>, t.w)

BracketLit(k) ==
    LET t == Tr(k.p) IN
    IF <<t.c>> \notin DOMAIN Bracket THEN None
    ELSE Res("tok", Bracket[<<t.c>>], <<t.c>>, Cur(k.p + t.w, k.l, k.c + t.w), <<>>)

BadLexeme(k) ==
    LET w == IF "badlex_raw" \in Dev THEN 1 ELSE Tr(k.p).w IN
    ResD("bad", "BAD_LEXEME", <<>>, Cur(k.p + w, k.l, k.c + w),
         <<Diag("BAD_LEXEME", "Error", << <<k.l, k.c>> >>)>>, IF Tr(k.p).w > 1 THEN {"badlex_raw"} ELSE {})

(* the sub-parsers in the implementation's order (Lexer.parsers); first match wins *)
FirstParser(k) ==
    LET a == FloatLit(k) IN IF a.kind # "none" THEN a ELSE
    LET b == IntLit(k) IN IF b.kind # "none" THEN b ELSE
    LET c == CharLit(k) IN IF c.kind # "none" THEN c ELSE
    LET d == StringLit(k) IN IF d.kind # "none" THEN d ELSE
    LET e == Identifier(k) IN IF e.kind # "none" THEN e ELSE
    LET f == Whitespace(k) IN IF f.kind # "none" THEN f ELSE
    LET g == LineComment(k) IN IF g.kind # "none" THEN g ELSE
    LET h == BlockComment(k) IN IF h.kind # "none" THEN h ELSE
    LET i == OperatorLit(k) IN IF i.kind # "none" THEN i ELSE
    BracketLit(k)

LexAt(k) ==
    IF k.p > N THEN Res("eof", "", <<>>, k, <<>>)
    ELSE IF Raw(k.p, 2) = <<BSL, NL>> \/ Raw(k.p, 4) = <<"?", "?", "/", NL>>
        THEN Res("skip", "", <<>>, Cur(k.p + SpliceW(k.p), k.l + 1, 1), <<>>)
    ELSE LET r == FirstParser(k) IN IF r.kind # "none" THEN r ELSE BadLexeme(k)

(***************************************************************************)
(* The state machine                                                       *)
(***************************************************************************)
Strings == UNION {[1..n -> Alphabet] : n \in 0..MaxLen}

(* a cheap position-weighted hash so that shards are balanced *)
CharIdx(c) == CHOOSE i \in DOMAIN Alpha : Alpha[i] = c
RECURSIVE Hash(_, _)
Hash(s, i) == IF i > Len(s) THEN Len(s) ELSE (CharIdx(s[i]) * (2 * i + 1) + Hash(s, i + 1)) % 1009

Init == /\ src \in {s \in Strings : Hash(s, 1) % NShards = Shard}
        /\ pos = 1 /\ line = 1 /\ col = 1
        /\ segs = <<>> /\ diags = <<>> /\ sites = {} /\ mode = "run"

Seg(r, k) == [kind |-> r.kind, type |-> r.type, text |-> r.text,
              line |-> k.l, col |-> k.c, s |-> k.p, e |-> r.k.p]

Step == /\ mode = "run"
        /\ LET k == Cur(pos, line, col)
               r == LexAt(k)
           IN  /\ mode' = IF r.kind = "eof" THEN "done" ELSE IF r.kind = "crash" THEN "crash" ELSE "run"
               /\ pos' = r.k.p /\ line' = r.k.l /\ col' = r.k.c
               /\ segs' = IF r.kind = "eof" THEN segs ELSE Append(segs, Seg(r, k))
               /\ diags' = diags \o r.d
               /\ sites' = sites \cup r.dv
               /\ src' = src

Next == Step
Spec == Init /\ [][Next]_vars

(***************************************************************************)
(* Intent-shaped oracles                                                   *)
(***************************************************************************)
(* C09: the position of raw offset i, recomputed from the raw text alone *)
RECURSIVE ColFrom(_, _, _)
ColFrom(j, i, c) == IF j >= i THEN c
                    ELSE ColFrom(j + 1, i, IF src[j] = TAB THEN c + TabW(c) ELSE c + 1)
LineStart(i) == LET S == {j \in 1..(i - 1) : src[j] = NL} IN
                IF S = {} THEN 1 ELSE 1 + CHOOSE j \in S : \A x \in S : x <= j
TruePos(i) == <<1 + Cardinality({j \in 1..(i - 1) : src[j] = NL}), ColFrom(LineStart(i), i, 1)>>

(* C10: the text a token covering raw s..e-1 must carry *)
RECURSIVE NormFrom(_, _, _, _)
NormFrom(i, e, quoted, tabs) ==
    IF i >= e THEN <<>>
    ELSE IF IsSpliceAt(i) /\ i + SpliceW(i) <= e THEN NormFrom(i + SpliceW(i), e, quoted, tabs)
    ELSE LET t == Tr(i)
             n == Tr(i + t.w)
         IN  IF quoted /\ t.c = BSL /\ n.w > 0 /\ i + t.w + n.w <= e
             THEN <<BSL, n.c>> \o NormFrom(i + t.w + n.w, e, quoted, tabs)
             ELSE (IF t.c = TAB /\ tabs THEN Spaces(TabW(TruePos(i)[2])) ELSE <<t.c>>)
                  \o NormFrom(i + t.w, e, quoted, tabs)
NormText(type, s, e) == NormFrom(s, e, type \in {"STRING", "CHAR_CONST"}, type = "MULT_COMMENT")

Toks  == SelectSeq(segs, LAMBDA g : g.kind \in {"tok", "crash"})

(* C09 *)
PosInv == /\ \A i \in DOMAIN segs : <<segs[i].line, segs[i].col>> = TruePos(segs[i].s)
          /\ <<line, col>> = TruePos(pos)
          /\ \A i \in DOMAIN diags :
                diags[i].code = "BAD_LEXEME" =>
                   \E g \in DOMAIN segs : segs[g].kind = "bad" /\ diags[i].hl[1] = TruePos(segs[g].s)

(* C10: consecutive, gap-free, each piece carries exactly the normalised text of its span *)
TileInv ==
    /\ \A i \in DOMAIN segs :
          /\ segs[i].s = (IF i = 1 THEN 1 ELSE segs[i - 1].e)
          /\ segs[i].e > segs[i].s
          /\ segs[i].kind = "tok" => segs[i].text = NormText(segs[i].type, segs[i].s, segs[i].e)
          /\ segs[i].kind = "skip" => IsSpliceAt(segs[i].s) /\ segs[i].e = segs[i].s + SpliceW(segs[i].s)
          /\ segs[i].kind = "bad" => segs[i].e = segs[i].s + Tr(segs[i].s).w
    /\ pos = (IF segs = <<>> THEN 1 ELSE segs[Len(segs)].e)
    /\ mode = "done" => pos = N + 1

(* C10: valueless tokens are recoverable from their type *)
SpellInv ==
    \A i \in DOMAIN segs : segs[i].kind = "tok" =>
        LET g == segs[i] IN
        \/ g.type \in ValueTypes
        \/ g.type = "SPACE" /\ g.text = <<SP>>
        \/ g.type = "TAB" /\ g.text = <<TAB>>
        \/ g.type = "NEWLINE" /\ g.text = <<NL>>
        \/ g.type \in Vals(KeywordPairs) /\ InvOf(KeywordPairs)[g.type] = g.text
        \/ g.type \in Vals(OperatorPairs) /\ InvOf(OperatorPairs)[g.type] = g.text
        \/ g.type \in Vals(BracketPairs) /\ InvOf(BracketPairs)[g.type] = g.text

(* C10: every bad lexeme has its diagnostic (count and positions) *)
BadLexInv ==
    LET bads == {i \in DOMAIN segs : segs[i].kind = "bad"}
        bd   == {i \in DOMAIN diags : diags[i].code = "BAD_LEXEME"}
    IN /\ Cardinality(bads) = Cardinality(bd)
       /\ \A i \in bads : \E j \in bd : diags[j].hl[1] = <<segs[i].line, segs[i].col>>

(* C05: total and terminating: some step is always possible until the end, *)
(* every step consumes at least one raw character, nothing crashes         *)
Total    == mode = "run" => ENABLED Next
NoCrash  == mode # "crash"
Progress == [][mode = "run" => (pos' > pos \/ mode' = "done")]_vars

TypeOK == /\ pos \in 1..(N + 1) /\ line >= 1 /\ col >= 0
          /\ mode \in {"run", "done", "crash"}

(***************************************************************************)
(* Export of completed behaviours for replay into the implementation       *)
(* (evaluated as an invariant: always TRUE, prints at terminal states).    *)
(***************************************************************************)
ExportRec == [src |-> src,
              toks |-> [i \in DOMAIN Toks |-> [t |-> Toks[i].type, x |-> Toks[i].text,
                                                l |-> Toks[i].line, c |-> Toks[i].col,
                                                s |-> Toks[i].s, e |-> Toks[i].e]],
              diags |-> [i \in DOMAIN diags |-> [code |-> diags[i].code, lv |-> diags[i].level,
                                                  hl |-> diags[i].hl]],
              sites |-> sites, mode |-> mode]
=============================================================================
