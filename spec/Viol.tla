-------------------------------- MODULE Viol --------------------------------
(***************************************************************************)
(* The violation catalogue of DESIGN 4.2: each operator rewrites exactly   *)
(* one line of a completed conforming derivation (or inserts / removes     *)
(* one line) and records which diagnostic code must be reported on which   *)
(* line.  C02 quantifies over every conforming program and every           *)
(* applicable site of every operator.                                      *)
(***************************************************************************)
EXTENDS Norm, OpTables

W(its) == Width(its)
Repl(its, j, new) == SubSeq(its, 1, j - 1) \o new \o SubSeq(its, j + 1, Len(its))
FirstIdx(its, P(_)) == LET I == {j \in DOMAIN its : P(its[j])} IN
                       IF I = {} THEN 0 ELSE CHOOSE j \in I : \A x \in I : j <= x
LastIdx(its, P(_)) == LET I == {j \in DOMAIN its : P(its[j])} IN
                      IF I = {} THEN 0 ELSE CHOOSE j \in I : \A x \in I : j >= x
LeadTabs(its) == LET I == {j \in DOMAIN its : \A x \in 1..j : its[x].s = "T"} IN Cardinality(I)
IsLit(it, x) == it.s = "L" /\ it.x = x
IsBinOp(it) == it.s = "L" /\ it.x \in BinOpLits
IsAssignOp(it) == it.s = "L" /\ it.x \in AssignOpLits
IsSpacedOp(it) == IsBinOp(it) \/ IsAssignOp(it)
IsComma(it) == IsLit(it, ", ")
Has(l, P(_)) == FirstIdx(l.items, P) # 0
IsOperandItem(it) == it.s \in {"v", "p", "num"}
IsNL(it) == it = NLc
IsLeadOp(it) == it.s = "L" /\ it.x \in {"+ ", "- ", "&& ", "|| "}
EolForm == [x \in {"+ ", "- ", "&& ", "|| ", "* "} |-> IF x = "+ " THEN " +" ELSE IF x = "- " THEN " -" ELSE IF x = "&& " THEN " &&"
                                                       ELSE IF x = "|| " THEN " ||" ELSE " *"]
PhysOff(op) == IF op \in {"cont_less_tab", "cont_more_tab", "assign_in_split_cond"} THEN 1 ELSE 0

BodyKinds == {"stmt", "ctrl"}
CodeKinds == {"stmt", "ctrl", "decl", "funchead", "global", "proto", "include", "define", "field"}

(* ---- line-local operators: [name, code] ; App = applicability; Rw = rewritten items ------------------------ *)
LocalOps == {
  "trail_space", "trail_tab", "space_indent", "less_tab", "more_tab", "double_space", "tab_before_op",
  "no_space_before_op", "no_space_after_op", "no_space_after_comma", "space_before_comma",
  "kw_no_space", "kw_semicolon", "space_after_lpar", "space_before_rpar", "return_no_paren", "two_instr",
  "ternary", "ternary_first_operand", "ternary_last_operand", "cont_less_tab", "cont_more_tab", "eol_operator", "assign_in_split_cond", "mult_assign", "assign_in_control", "for_loop", "goto", "label",
  "mult_decl", "decl_assign", "decl_space_not_tab", "decl_extra_tab", "star_space", "vla", "capital_var",
  "no_void", "space_before_func", "two_tabs_func", "capital_func", "paren_space_func",
  "define_expr", "macro_func", "include_c", "include_nospace", "space_before_hash", "lower_macro",
  "global_no_prefix", "eol_comment_body", "mid_comment" }

Code(op) ==
  CASE op = "trail_space" -> {"SPC_BEFORE_NL"}
    [] op = "trail_tab" -> {"TAB_INSTEAD_SPC"}
    [] op = "space_indent" -> {"SPACE_REPLACE_TAB"}
    [] op = "less_tab" -> {"TOO_FEW_TAB"}
    [] op = "more_tab" -> {"TOO_MANY_TAB"}
    [] op = "double_space" -> {"CONSECUTIVE_SPC"}
    [] op = "tab_before_op" -> {"TAB_INSTEAD_SPC"}
    [] op = "no_space_before_op" -> {"SPC_BFR_OPERATOR"}
    [] op = "no_space_after_op" -> {"SPC_AFTER_OPERATOR", "SPC_BFR_PAR"}    \* "a ||(b)": reported as a missing space before "("
    [] op = "no_space_after_comma" -> {"SPC_AFTER_OPERATOR"}
    [] op = "space_before_comma" -> {"NO_SPC_BFR_OPR"}
    [] op = "kw_no_space" -> {"SPACE_AFTER_KW"}
    [] op = "kw_semicolon" -> {"SPACE_AFTER_KW"}
    [] op = "space_after_lpar" -> {"NO_SPC_AFR_PAR"}
    [] op = "space_before_rpar" -> {"NO_SPC_BFR_PAR"}
    [] op = "return_no_paren" -> {"RETURN_PARENTHESIS"}
    [] op = "two_instr" -> {"TOO_MANY_INSTR"}
    [] op \in {"ternary", "ternary_first_operand", "ternary_last_operand"} -> {"TERNARY_FBIDDEN"}
    [] op = "cont_less_tab" -> {"TOO_FEW_TAB"}
    [] op = "cont_more_tab" -> {"TOO_MANY_TAB"}
    [] op = "eol_operator" -> {"EOL_OPERATOR"}
    [] op = "assign_in_split_cond" -> {"ASSIGN_IN_CONTROL"}
    [] op = "mult_assign" -> {"MULT_ASSIGN_LINE"}
    [] op = "assign_in_control" -> {"ASSIGN_IN_CONTROL"}
    [] op = "for_loop" -> {"FORBIDDEN_CS"}
    [] op = "goto" -> {"GOTO_FBIDDEN"}
    [] op = "label" -> {"LABEL_FBIDDEN"}
    [] op = "mult_decl" -> {"MULT_DECL_LINE"}
    [] op = "decl_assign" -> {"DECL_ASSIGN_LINE"}
    [] op = "decl_space_not_tab" -> {"SPACE_REPLACE_TAB"}
    [] op = "decl_extra_tab" -> {"MISALIGNED_VAR_DECL"}
    [] op = "star_space" -> {"SPC_AFTER_POINTER"}
    [] op = "vla" -> {"VLA_FORBIDDEN"}
    [] op = "capital_var" -> {"FORBIDDEN_CHAR_NAME"}
    [] op = "no_void" -> {"NO_ARGS_VOID"}
    [] op = "space_before_func" -> {"SPACE_BEFORE_FUNC"}
    [] op = "two_tabs_func" -> {"TOO_MANY_TABS_FUNC"}
    [] op = "capital_func" -> {"FORBIDDEN_CHAR_NAME"}
    [] op = "paren_space_func" -> {"EXP_PARENTHESIS"}
    [] op = "define_expr" -> {"PREPROC_CONSTANT"}
    [] op = "macro_func" -> {"MACRO_FUNC_FORBIDDEN"}
    [] op = "include_c" -> {"INCLUDE_HEADER_ONLY"}
    [] op = "include_nospace" -> {"PREPROC_NO_SPACE"}
    [] op = "space_before_hash" -> {"PREPROC_START_LINE"}
    [] op = "lower_macro" -> {"MACRO_NAME_CAPITAL"}
    [] op = "global_no_prefix" -> {"GLOBAL_VAR_NAMING"}
    [] op = "eol_comment_body" -> {"WRONG_SCOPE_COMMENT"}
    [] op = "mid_comment" -> {"COMMENT_ON_INSTR"}

IsKwLit(it) == it.s = "L" /\ it.x \in {"if (", "while (", "else if (", "return ("}
IsKwSemi(it) == it.s = "L" /\ it.x \in {"break ;", "continue ;", "return ;"}
KwNoSpace == ("if (" :> "if(") @@ ("while (" :> "while(") @@ ("else if (" :> "else if(") @@ ("return (" :> "return(")
KwSemi == ("break ;" :> "break;") @@ ("continue ;" :> "continue;") @@ ("return ;" :> "return;")
KwSpaceAfter == ("if (" :> "if ( ") @@ ("while (" :> "while ( ") @@ ("else if (" :> "else if ( ") @@ ("return (" :> "return ( ")
IsStar(it) == it.s = "L" /\ it.x \in {"*", "**"}
IsVarSlot(it) == it.s = "v"
IsFuncSlot(it) == it.s = "f"
IsParamVoid(it) == IsLit(it, "void")
InBody(i) == \E a \in 1..(i - 1) : prog[a].k = "funchead" /\ ~\E b \in a..(i - 1) : prog[b].k = "rbrace" /\ LeadTabs(prog[b].items) = 0

App(op, l, i) ==
  CASE op = "trail_space" -> l.k \in CodeKinds
    [] op = "trail_tab" -> l.k \in {"stmt", "ctrl", "decl"}
    [] op \in {"space_indent", "less_tab"} -> l.k \in BodyKinds /\ LeadTabs(l.items) >= 1
    [] op = "more_tab" -> l.k \in BodyKinds
    [] op \in {"double_space", "tab_before_op", "no_space_before_op"} -> l.k \in BodyKinds /\ Has(l, IsSpacedOp)
    (* removing the blank after an operator in front of a unary operator would build another token ("7 --x"): *)
    (* the operator applies where the right operand starts with an identifier, a constant or a parenthesis     *)
    [] op = "no_space_after_op" -> l.k \in BodyKinds /\ Has(l, IsSpacedOp)
           /\ LET j == FirstIdx(l.items, IsSpacedOp) IN
              j < Len(l.items) /\ (l.items[j + 1].s # "L" \/ l.items[j + 1].x \in {"(", "sizeof("})
    [] op \in {"no_space_after_comma", "space_before_comma"} -> l.k \in {"stmt", "funchead", "proto"} /\ Has(l, IsComma)
    [] op \in {"kw_no_space", "space_after_lpar"} -> l.k \in BodyKinds /\ Has(l, IsKwLit)
    [] op = "kw_semicolon" -> l.k = "stmt" /\ Has(l, IsKwSemi)
    [] op = "space_before_rpar" -> l.k = "ctrl" /\ Has(l, IsKwLit)
    [] op = "return_no_paren" -> l.k = "stmt" /\ Has(l, LAMBDA it : IsLit(it, "return ("))
                                 /\ ~IsLit(l.items[FirstIdx(l.items, LAMBDA it : IsLit(it, "return (")) + 1], "(")
    [] op = "two_instr" -> l.k = "stmt" /\ l.st = "IsAssignation"
    [] op \in {"ternary", "mult_assign"} -> l.k = "stmt" /\ Has(l, LAMBDA it : IsLit(it, " = "))
    (* the forbidden construct in EVERY statement context: an operand of a call statement, a return, a condition, *)
    (* an index ... becomes a conditional expression                                                            *)
    [] op \in {"ternary_first_operand", "ternary_last_operand"} -> l.k \in BodyKinds /\ Has(l, IsOperandItem)
    (* statements split over two physical lines: the continuation line one tab short / one tab too many (reported on *)
    (* the continuation line), the operator left at the end of the first line                                       *)
    [] op \in {"cont_less_tab", "cont_more_tab"} -> l.k \in {"stmt2", "ctrl2"}
    [] op = "eol_operator" -> l.k \in {"stmt2", "ctrl2"} /\ Has(l, IsLeadOp)
    (* the assignment on the CONTINUATION line of a condition split over two lines (reported there) *)
    [] op = "assign_in_split_cond" -> l.k = "ctrl2" /\ Has(l, IsLeadOp)
    [] op \in {"assign_in_control", "for_loop"} -> l.k = "ctrl" /\ Has(l, LAMBDA it : IsLit(it, "while ("))
    [] op \in {"goto", "label"} -> l.k = "stmt" /\ l.st = "IsFunctionCall" /\ LeadTabs(l.items) = 1
    [] op \in {"mult_decl", "decl_assign", "decl_space_not_tab", "star_space", "vla", "capital_var"} -> l.k = "decl"
              /\ (op = "star_space" => Has(l, IsStar)) /\ (op = "vla" => ~Has(l, LAMBDA it : IsLit(it, "[")))
    [] op = "decl_extra_tab" -> l.k = "decl" /\ i > 1 /\ prog[i - 1].k = "decl"
    [] op = "no_void" -> l.k \in {"funchead", "proto"} /\ IsParamVoid(l.items[Len(l.items) - 1])
    [] op \in {"space_before_func", "two_tabs_func", "capital_func", "paren_space_func"} -> l.k = "funchead"
    [] op \in {"define_expr", "macro_func", "lower_macro"} -> l.k = "define"
    [] op \in {"include_c", "include_nospace"} -> l.k = "include" /\ FileKind = "c"
    [] op = "space_before_hash" -> l.k \in {"include", "define"}
    [] op = "global_no_prefix" -> l.k = "global"
    [] op = "eol_comment_body" -> l.k = "stmt"
    [] op = "mid_comment" -> l.k = "stmt" /\ Has(l, IsSpacedOp)

Rw(op, l) ==
  LET its == l.items
      t  == LeadTabs(its)
      jo == FirstIdx(its, IsSpacedOp)
      jc == FirstIdx(its, IsComma)
      jk == FirstIdx(its, IsKwLit)
      js == FirstIdx(its, IsKwSemi)
      je == FirstIdx(its, LAMBDA it : IsLit(it, " = "))
      jv == FirstIdx(its, IsVarSlot)
      jf == FirstIdx(its, IsFuncSlot)
      jt == FirstIdx(its, LAMBDA it : it.s = "T" )
      semi == LastIdx(its, LAMBDA it : IsLit(it, ";"))
  IN
  CASE op = "trail_space" -> its \o <<L(" ", 1)>>
    [] op = "trail_tab" -> its \o <<TAB1>>
    [] op = "space_indent" -> <<L("    ", 4)>> \o SubSeq(its, 2, Len(its))
    [] op = "less_tab" -> SubSeq(its, 2, Len(its))
    [] op = "more_tab" -> <<TAB1>> \o its
    [] op = "double_space" -> Repl(its, jo, <<L(DoubleSpaceBefore[its[jo].x], its[jo].w + 1)>>)
    [] op = "tab_before_op" -> Repl(its, jo, <<TAB1, L(NoSpaceBefore[its[jo].x], its[jo].w - 1)>>)
    [] op = "no_space_before_op" -> Repl(its, jo, <<L(NoSpaceBefore[its[jo].x], its[jo].w - 1)>>)
    [] op = "no_space_after_op" -> Repl(its, jo, <<L(NoSpaceAfter[its[jo].x], its[jo].w - 1)>>)
    [] op = "no_space_after_comma" -> Repl(its, jc, <<L(",", 1)>>)
    [] op = "space_before_comma" -> Repl(its, jc, <<L(" , ", 3)>>)
    [] op = "kw_no_space" -> Repl(its, jk, <<L(KwNoSpace[its[jk].x], its[jk].w - 1)>>)
    [] op = "kw_semicolon" -> Repl(its, js, <<L(KwSemi[its[js].x], its[js].w - 1)>>)
    [] op = "space_after_lpar" -> Repl(its, jk, <<L(KwSpaceAfter[its[jk].x], its[jk].w + 1)>>)
    [] op = "space_before_rpar" -> Repl(its, Len(its), <<L(" )", 2)>>)
    [] op = "return_no_paren" -> LET jr == FirstIdx(its, LAMBDA it : IsLit(it, "return (")) IN
                                 Repl(Repl(its, Len(its), <<L(";", 1)>>), jr, <<L("return ", 7)>>)
    [] op = "two_instr" -> its \o <<L(" ", 1), V1, L(" = ", 3), N1, L(";", 1)>>
    [] op = "ternary" -> SubSeq(its, 1, je) \o <<V1, L(" ? ", 3), V3, L(" : ", 3), N1, L(";", 1)>>
    [] op = "cont_less_tab" -> Repl(its, FirstIdx(its, IsNL) + 1, <<>>)
    [] op = "cont_more_tab" -> Repl(its, FirstIdx(its, IsNL), <<NLc, TAB1>>)
    [] op = "eol_operator" -> LET jl == FirstIdx(its, IsLeadOp)
                                  jn == FirstIdx(its, IsNL)
                              IN SubSeq(its, 1, jn - 1) \o <<L(EolForm[its[jl].x], its[jl].w)>> \o SubSeq(its, jn, jl - 1) \o SubSeq(its, jl + 1, Len(its))
    (* parenthesised: the operand may be followed by ".x", "[i]", "++" ("4.a" would be a floating constant) *)
    [] op = "assign_in_split_cond" -> SubSeq(its, 1, FirstIdx(its, IsLeadOp)) \o <<V1, L(" = ", 3), N1, L(")", 1)>>
    [] op = "ternary_first_operand" -> Repl(its, FirstIdx(its, IsOperandItem), <<L("(", 1), V1, L(" ? ", 3), V3, L(" : ", 3), N1, L(")", 1)>>)
    [] op = "ternary_last_operand" -> Repl(its, LastIdx(its, IsOperandItem), <<L("(", 1), V1, L(" ? ", 3), V3, L(" : ", 3), N1, L(")", 1)>>)
    [] op = "mult_assign" -> SubSeq(its, 1, je) \o <<V5, L(" = ", 3)>> \o SubSeq(its, je + 1, Len(its))
    [] op = "assign_in_control" -> Tabs(t) \o <<L("while (", 7), V1, L(" = ", 3), N1, L(")", 1)>>
    [] op = "for_loop" -> Tabs(t) \o <<L("for (", 5), V1, L(" = ", 3), N1, L("; ", 2), V1, L(" < ", 3), N2, L("; ", 2), V1, L("++", 2), L(")", 1)>>
    [] op = "goto" -> Tabs(t) \o <<L("goto ", 5), V3, L(";", 1)>>
    [] op = "label" -> <<V3, L(":", 1)>>
    [] op = "mult_decl" -> Repl(its, semi, <<L(", ", 2), V1, L(";", 1)>>)
    [] op = "decl_assign" -> Repl(its, semi, <<L(" = ", 3), N1, L(";", 1)>>)
    [] op = "decl_space_not_tab" -> LET j2 == CHOOSE j \in DOMAIN its : j > 1 /\ its[j].s = "T" /\ \A x \in 2..(j - 1) : its[x].s # "T"
                                   IN Repl(its, j2, <<L(" ", 1)>>)
    [] op = "decl_extra_tab" -> LET j2 == CHOOSE j \in DOMAIN its : j > 1 /\ its[j].s = "T" /\ \A x \in 2..(j - 1) : its[x].s # "T"
                               IN Repl(its, j2, <<TAB1, TAB1>>)
    [] op = "star_space" -> LET j2 == FirstIdx(its, IsStar) IN Repl(its, j2, <<its[j2], L(" ", 1)>>)
    [] op = "vla" -> Repl(its, semi, <<L("[", 1), V1, L("]", 1), L(";", 1)>>)
    [] op = "capital_var" -> Repl(its, jv, <<Slot("vbad", its[jv].w + 1, its[jv].n)>>)
    [] op = "no_void" -> Repl(its, Len(its) - 1, <<>>)
    [] op = "space_before_func" -> Repl(its, jt, <<L(" ", 1)>>)
    [] op = "two_tabs_func" -> Repl(its, jt, <<TAB1, TAB1>>)
    [] op = "capital_func" -> Repl(its, jf, <<Slot("fbad", its[jf].w + 1, its[jf].n)>>)
    [] op = "paren_space_func" -> Repl(its, jf, <<its[jf], L(" ", 1)>>)
    [] op = "define_expr" -> SubSeq(its, 1, 3) \o <<N1, L(" + ", 3), N1>>
    [] op = "macro_func" -> SubSeq(its, 1, 2) \o <<L("(x) x", 5)>>
    [] op = "lower_macro" -> Repl(its, 2, <<Slot("v", its[2].w, 40)>>)
    [] op = "include_c" -> Repl(its, 3, <<L(IF its[3].x = ".h>" THEN ".c>" ELSE ".c\"", 3)>>)
    [] op = "include_nospace" -> Repl(its, 1, <<L(IF its[1].x = "#include <" THEN "#include<" ELSE "#include\"", 9)>>)
    [] op = "space_before_hash" -> <<L(" ", 1)>> \o its
    [] op = "global_no_prefix" -> LET jg == FirstIdx(its, LAMBDA it : it.s = "g") IN Repl(its, jg, <<Slot("v", its[jg].w, 41)>>)
    [] op = "eol_comment_body" -> its \o <<L(" // ", 4), Slot("txt", 6, 0)>>
    [] op = "mid_comment" -> Repl(its, jo, <<L(" /* x */", 8), its[jo]>>)

(* the item an operator touches (0: the line as a whole) and a description of the site, for reports and for *)
(* keying known findings by site class                                                                    *)
Touch(op, l) ==
  LET its == l.items IN
  CASE op \in {"double_space", "tab_before_op", "no_space_before_op", "no_space_after_op", "mid_comment"} -> FirstIdx(its, IsSpacedOp)
    [] op \in {"no_space_after_comma", "space_before_comma"} -> FirstIdx(its, IsComma)
    [] op \in {"kw_no_space", "space_after_lpar"} -> FirstIdx(its, IsKwLit)
    [] op = "kw_semicolon" -> FirstIdx(its, IsKwSemi)
    [] op = "space_before_rpar" -> Len(its)
    [] op = "star_space" -> FirstIdx(its, IsStar)
    [] OTHER -> 0
Desc(its, j) == IF j < 1 \/ j > Len(its) THEN "" ELSE IF its[j].s \in {"L", "T"} THEN its[j].x ELSE its[j].s
SiteOf(op, l) == LET j == Touch(op, l) IN
                 [k |-> l.k, lit |-> Desc(l.items, j), prev |-> Desc(l.items, j - 1), next |-> Desc(l.items, j + 1),
                  next2 |-> Desc(l.items, j + 2),
                  first |-> Desc(l.items, LeadTabs(l.items) + 1), tabs |-> LeadTabs(l.items)]

(* ---- structural operators: insert / remove / move a line ------------------------------------------------- *)
StructOps == {"dup_empty_between_funcs", "empty_in_body", "no_empty_after_decls", "no_empty_between_funcs",
              "empty_at_file_start", "empty_at_eof", "space_on_empty", "brace_same_line", "decl_after_stmt",
              "decl_in_block", "comment_in_body", "typedef_in_c", "struct_in_c", "no_header",
              "too_many_lines", "too_many_args", "too_many_funcs", "line_too_long"}
SCode(op) ==
  CASE op = "dup_empty_between_funcs" -> {"CONSECUTIVE_NEWLINES"}
    [] op = "empty_in_body" -> {"EMPTY_LINE_FUNCTION"}
    [] op = "no_empty_after_decls" -> {"NL_AFTER_VAR_DECL"}
    [] op = "no_empty_between_funcs" -> {"NEWLINE_PRECEDES_FUNC"}
    [] op = "empty_at_file_start" -> {"EMPTY_LINE_FILE_START"}
    [] op = "empty_at_eof" -> {"EMPTY_LINE_EOF"}
    [] op = "space_on_empty" -> {"SPACE_EMPTY_LINE"}
    [] op = "brace_same_line" -> {"BRACE_NEWLINE"}
    [] op = "decl_after_stmt" -> {"VAR_DECL_START_FUNC"}
    [] op = "decl_in_block" -> {"WRONG_SCOPE_VAR"}
    [] op = "comment_in_body" -> {"WRONG_SCOPE_COMMENT"}
    [] op = "typedef_in_c" -> {"FORBIDDEN_TYPEDEF"}
    [] op = "struct_in_c" -> {"FORBIDDEN_STRUCT"}
    [] op = "no_header" -> {"INVALID_HEADER"}
    [] op = "too_many_lines" -> {"TOO_MANY_LINES"}
    [] op = "too_many_args" -> {"TOO_MANY_ARGS"}
    [] op = "too_many_funcs" -> {"TOO_MANY_FUNCS"}
    [] op = "line_too_long" -> {"LINE_TOO_LONG"}

IsEmptyBetweenFuncs(i) == prog[i].k = "empty" /\ i > 1 /\ prog[i - 1].k = "rbrace" /\ LeadTabs(prog[i - 1].items) = 0
                          /\ i < Len(prog)
IsEmptyAfterDecls(i) == prog[i].k = "empty" /\ i > 1 /\ prog[i - 1].k = "decl"
SApp(op, i) ==
  CASE op = "dup_empty_between_funcs" -> IsEmptyBetweenFuncs(i)
    [] op = "no_empty_between_funcs" -> IsEmptyBetweenFuncs(i) /\ prog[i + 1].k \in {"funchead", "comment"}
    (* before any line of a function body except the first statement after the declarations' empty line *)
    [] op = "empty_in_body" -> prog[i].k \in {"stmt", "ctrl", "lbrace", "rbrace"} /\ i > 1
                               /\ prog[i - 1].k \in {"stmt", "ctrl", "lbrace", "rbrace"} /\ InBody(i)
                               /\ ~(prog[i].k = "lbrace" /\ LeadTabs(prog[i].items) = 0)
    [] op \in {"no_empty_after_decls", "space_on_empty"} -> IsEmptyAfterDecls(i)
    [] op = "empty_at_file_start" -> i = 1
    [] op = "empty_at_eof" -> i = Len(prog)
    [] op = "brace_same_line" -> prog[i].k = "funchead"
    [] op = "decl_after_stmt" -> prog[i].k = "stmt" /\ LeadTabs(prog[i].items) = 1 /\ i > 1 /\ prog[i - 1].k = "stmt"
                                 /\ LeadTabs(prog[i - 1].items) = 1
    [] op = "decl_in_block" -> prog[i].k = "stmt" /\ LeadTabs(prog[i].items) = 2 /\ i > 1 /\ prog[i - 1].k = "lbrace"
    [] op = "comment_in_body" -> prog[i].k = "stmt"
    [] op \in {"typedef_in_c", "struct_in_c"} -> FileKind = "c" /\ prog[i].k = "funchead" /\ i > 1 /\ prog[i - 1].k = "empty"
    [] op = "no_header" -> i = 1
    [] op \in {"too_many_lines", "too_many_args"} -> prog[i].k = "funchead"
    [] op = "too_many_funcs" -> FileKind = "c" /\ i = Len(prog) /\ nfun >= 1
    [] op = "line_too_long" -> prog[i].k = "funchead" /\ i > 1 /\ prog[i - 1].k = "empty"

(* the closing brace of the function whose head is line i *)
FuncEnd(i) == CHOOSE j \in (i + 1)..Len(prog) : prog[j].k = "rbrace" /\ LeadTabs(prog[j].items) = 0
                                                /\ \A x \in (i + 1)..(j - 1) : ~(prog[x].k = "rbrace" /\ LeadTabs(prog[x].items) = 0)
PadLine == Line("stmt", "IsAssignation", <<TAB1, V1, L(" = ", 3), N1, L(";", 1)>>)
RECURSIVE RepL(_, _)
RepL(l, n) == IF n <= 0 THEN <<>> ELSE <<l>> \o RepL(l, n - 1)
ExtraParams == <<L(", ", 2), L("int", 3), L(" ", 1), Slot("p", 2, 61), L(", ", 2), L("int", 3), L(" ", 1), Slot("p", 2, 62), L(", ", 2), L("int", 3), L(" ", 1), Slot("p", 2, 63),
                 L(", ", 2), L("int", 3), L(" ", 1), Slot("p", 2, 64), L(", ", 2), L("int", 3), L(" ", 1), Slot("p", 2, 65)>>
RECURSIVE MoreFuncs(_, _)
MoreFuncs(k, n) == IF k > n THEN <<>>
                   ELSE <<Empty, Line("funchead", "IsFuncDeclaration", <<L("int", 3), TAB1, Slot("f", 6, 70 + k), L("(void)", 6)>>),
                          Line("lbrace", "IsBlockStart", <<L("{", 1)>>), PadLine, Line("rbrace", "IsBlockEnd", <<L("}", 1)>>)>> \o MoreFuncs(k + 1, n)

Ins(i, ls) == SubSeq(prog, 1, i - 1) \o ls \o SubSeq(prog, i, Len(prog))
Del(i) == SubSeq(prog, 1, i - 1) \o SubSeq(prog, i + 1, Len(prog))
DeclNow(t) == Line("decl", "IsVarDeclaration", Tabs(t) \o <<L("int", 3), TAB1, Slot("v", 4, 50), L(";", 1)>>)
(* result: [prog, line] -- line = index (in the NEW program) of the line that must carry the diagnostic *)
SRw(op, i) ==
  CASE op = "dup_empty_between_funcs" -> [p |-> Ins(i, <<Empty>>), line |-> i + 1]
    [] op = "empty_in_body" -> [p |-> Ins(i, <<Empty>>), line |-> i]
    [] op = "no_empty_after_decls" -> [p |-> Del(i), line |-> i]
    [] op = "no_empty_between_funcs" -> [p |-> Del(i), line |-> IF prog[i + 1].k = "comment" THEN i + 1 ELSE i]
    [] op = "empty_at_file_start" -> [p |-> <<Empty>> \o prog, line |-> 1]
    [] op = "empty_at_eof" -> [p |-> prog \o <<Empty>>, line |-> Len(prog) + 1]
    [] op = "space_on_empty" -> [p |-> [prog EXCEPT ![i] = Line("empty_ws", "IsEmptyLine", <<L(" ", 1)>>)], line |-> i]
    [] op = "brace_same_line" -> [p |-> Del(i + 1) , line |-> i]
    [] op = "decl_after_stmt" -> [p |-> Ins(i, <<DeclNow(1)>>), line |-> i]
    [] op = "decl_in_block" -> [p |-> Ins(i, <<DeclNow(2)>>), line |-> i]
    [] op = "comment_in_body" -> [p |-> Ins(i, <<Line("comment", "IsComment", Tabs(LeadTabs(prog[i].items)) \o <<L("/* ", 3), Slot("txt", 6, 0), L(" */", 3)>>)>>), line |-> i]
    [] op = "typedef_in_c" -> [p |-> Ins(i, <<Line("utype", "IsUserDefinedType", <<L("typedef int", 11), TAB1, Slot("tname", 5, 9), L(";", 1)>>), Empty>>), line |-> i]
    [] op = "struct_in_c" -> [p |-> Ins(i, <<Line("utype", "IsUserDefinedType", <<L("struct ", 7), Slot("stag", 5, 9)>>), Line("lbrace", "IsBlockStart", <<L("{", 1)>>),
                                             Line("field", "IsVarDeclaration", <<TAB1, L("int", 3), TAB1, Slot("fld", 1, 1), L(";", 1)>>),
                                             Line("rbrace", "IsBlockEnd", <<L("};", 2)>>), Empty>>), line |-> i]
    [] op = "no_header" -> [p |-> SubSeq(prog, 3, Len(prog)), line |-> 0]      \* 0: anywhere in the file
    [] op = "too_many_lines" -> LET j == FuncEnd(i)
                                    have == j - i - 2
                                    add == 26 - have
                                IN [p |-> Ins(j, RepL(PadLine, add)), line |-> j + add]
    [] op = "too_many_args" -> [p |-> [prog EXCEPT ![i].items = (IF IsParamVoid(prog[i].items[Len(prog[i].items) - 1])
                                                                   THEN SubSeq(@, 1, Len(@) - 2) \o <<L("int", 3), L(" ", 1), Slot("p", 2, 60)>>
                                                                   ELSE SubSeq(@, 1, Len(@) - 1)) \o ExtraParams \o <<L(")", 1)>>], line |-> i]
    [] op = "too_many_funcs" -> [p |-> prog \o MoreFuncs(nfun + 1, 6), line |-> Len(prog) + 5 * (5 - nfun) + 2]
    [] op = "line_too_long" -> [p |-> Ins(i, <<Line("comment", "IsComment", <<L("/* ", 3), Slot("txt", 76, 0), L(" */", 3)>>)>>), line |-> i]

LocalSites(op) == {i \in DOMAIN prog : App(op, prog[i], i)}
StructSites(op) == {i \in DOMAIN prog : SApp(op, i)}

(* brace_same_line needs the rewritten head *)
ApplyStruct(op, i) ==
    IF op = "brace_same_line"
    THEN LET r == SRw(op, i) IN [p |-> [r.p EXCEPT ![i] = [prog[i] EXCEPT !.items = @ \o <<L(" {", 2)>>]], line |-> i]
    ELSE SRw(op, i)

Violate ==
    /\ phase = "done" /\ WithViol /\ viol.op = "none"
    /\ \/ \E op \in (IF Sim THEN Pick({o \in LocalOps : LocalSites(o) # {}}) ELSE {o \in LocalOps : LocalSites(o) # {}}) :
          \E i \in (IF Sim THEN Pick(LocalSites(op)) ELSE LocalSites(op)) :
             /\ prog' = [prog EXCEPT ![i].items = Rw(op, prog[i])]
             /\ viol' = [op |-> op, line |-> i, code |-> Code(op), site |-> SiteOf(op, prog[i]), off |-> PhysOff(op)]
       \/ \E op \in (IF Sim THEN Pick({o \in StructOps : StructSites(o) # {}}) ELSE {o \in StructOps : StructSites(o) # {}}) :
          \E i \in (IF Sim THEN Pick(StructSites(op)) ELSE StructSites(op)) :
             LET r == ApplyStruct(op, i) IN
             /\ prog' = r.p
             /\ viol' = [op |-> op, line |-> r.line, code |-> SCode(op),
                          site |-> [k |-> prog[i].k, lit |-> "", prev |-> IF i > 1 THEN prog[i - 1].k ELSE "", next |-> IF i < Len(prog) THEN prog[i + 1].k ELSE "",
                                    next2 |-> "",
                                    first |-> "", tabs |-> LeadTabs(prog[i].items)]]
    /\ phase' = "violated"
    /\ UNCHANGED <<nfun, body, open, elseOK, ndecl, scope, wrapped>>

VNext == Next \/ Violate
VSpec == Init /\ [][VNext]_nvars
VDone == IF WithViol THEN phase = "violated" ELSE phase = "done"
OneViolationInv == (phase = "violated") => (viol.op # "none" /\ viol.line \in 0..Len(prog))
=============================================================================
